"""Front end: read the REAL sources of /repo on every run, extract functions/classes
mechanically, and compile them for execution on symbolic proxies.

What the extraction drops or rewrites (reported in every evidence file, `DROPPED`):
  * docstrings, type annotations (class-level field annotations are kept as markers only);
  * decorators other than @property / @dataclass / @staticmethod (e.g. @parallelize: the
    numba-compiled kernel is assumed to compute what the Python body computes, A4);
  * expression statements that are calls on the module's `logger` (no-ops that do not raise);
  * float / imaginary literals are replaced by exact decimal constants (A1);
  * `for` loops for which the contract supplies an invariant are rewritten into the
    init / step / exit hook calls (engine.LoopCtl) around the UNCHANGED loop body;
  * `import` statements inside function bodies are resolved from the harness namespace.
Nothing else is changed; an unsupported construct makes the run undecided.
"""
import ast
import hashlib
import os

from .sym import Undecided

REPO = os.environ.get("PYVC_REPO", "/repo")
SRC = os.path.join(REPO, "src")

DROPPED = [
    "docstrings", "type annotations", "logger.* calls (no-ops)", "for loops whose body consists only of logger calls (the iterable is still evaluated)",
    "decorators other than property/dataclass/staticmethod (@parallelize => A4)",
    "float literals -> exact decimals (A1)", "exception message texts (class kept)",
    "augmented assignment to a subscript `a[i] op= v` rewritten as `a[i] = a[i] op v` (same final contents for arrays and lists)",
    "module-level statements other than the definitions and pure constant assignments a function refers to",
]

_cache = {}


class ModInfo:
    def __init__(self, modname):
        self.modname = modname
        rel = modname.replace(".", "/") + ".py"
        self.path = os.path.join(SRC, rel)
        with open(self.path, "rb") as f:
            raw = f.read()
        self.sha256 = hashlib.sha256(raw).hexdigest()
        self.source = raw.decode()
        self.tree = ast.parse(self.source, filename=self.path)
        self.lines = self.source.splitlines()

    def find(self, qualname):
        parts = qualname.split(".")
        body = self.tree.body
        node = None
        for p in parts:
            node = None
            for n in body:
                if isinstance(n, (ast.FunctionDef, ast.ClassDef)) and n.name == p:
                    node = n
                    break
            if node is None:
                raise Undecided("%s: no definition %s" % (self.modname, qualname))
            body = node.body
        return node

    def src_of(self, node):
        return "\n".join(self.lines[node.lineno - 1:node.end_lineno])

    def constants(self):
        """Module-level NAME = <numeric/str literal> assignments."""
        out = {}
        for n in self.tree.body:
            if isinstance(n, ast.Assign) and len(n.targets) == 1 and isinstance(n.targets[0], ast.Name):
                v = n.value
                neg = False
                if isinstance(v, ast.UnaryOp) and isinstance(v.op, ast.USub):
                    v, neg = v.operand, True
                if isinstance(v, ast.Constant) and isinstance(v.value, (int, float, str)) \
                        and not isinstance(v.value, bool):
                    out[n.targets[0].id] = (v.value, neg, ast.get_source_segment(self.source, n.value))
        return out


def module(modname):
    if modname not in _cache:
        _cache[modname] = ModInfo(modname)
    return _cache[modname]


def reset_cache():
    _cache.clear()


class FuncInfo:
    def __init__(self, modname, qualname, node, mod):
        self.modname = modname
        self.qualname = qualname
        self.file = os.path.relpath(mod.path, REPO)
        self.lines = (node.lineno, node.end_lineno)
        self.sha256 = hashlib.sha256(mod.src_of(node).encode()).hexdigest()
        self.file_sha256 = mod.sha256
        self.dropped_decorators = []
        self.loops = 0

    def as_json(self):
        return {"function": self.modname + ":" + self.qualname, "file": self.file,
                "lines": list(self.lines), "sha256": self.sha256[:16],
                "dropped_decorators": self.dropped_decorators}


def _assigned_names(body):
    names = set()

    class V(ast.NodeVisitor):
        def visit_Name(self, n):
            if isinstance(n.ctx, (ast.Store, ast.Del)):
                names.add(n.id)

        def _base(self, t):
            while isinstance(t, (ast.Subscript, ast.Attribute)):
                t = t.value
            if isinstance(t, ast.Name):
                names.add(t.id)

        def visit_Subscript(self, n):
            if isinstance(n.ctx, ast.Store):
                self._base(n)
            self.generic_visit(n)

        def visit_Attribute(self, n):
            if isinstance(n.ctx, ast.Store):
                self._base(n)
            self.generic_visit(n)

        def visit_FunctionDef(self, n):
            names.add(n.name)

        def visit_Call(self, n):
            f = n.func
            if isinstance(f, ast.Attribute) and isinstance(f.value, ast.Name) and \
                    f.attr in ("append", "extend", "insert", "pop", "update", "add", "clear", "setdefault", "remove"):
                names.add(f.value.id)
            self.generic_visit(n)

        def visit_With(self, n):
            self.generic_visit(n)

        def visit_Lambda(self, n):
            pass

        def visit_ListComp(self, n):
            # comprehension variables are local to the comprehension
            for g in n.generators:
                self.visit(g.iter)
            pass

        visit_SetComp = visit_DictComp = visit_GeneratorExp = visit_ListComp

    v = V()
    for s in body:
        v.visit(s)
    return names


def _rebound_names(body):
    """Names the statements (re)bind by plain assignment / for / with / import / def -- as opposed to names whose object
    is only modified in place (subscript or attribute store, augmented assignment, mutating method call)."""
    names = set()
    aug = set()

    class V(ast.NodeVisitor):
        def visit_AugAssign(self, n):
            if isinstance(n.target, ast.Name):
                aug.add(id(n.target))
            self.generic_visit(n)

        def visit_Name(self, n):
            if isinstance(n.ctx, (ast.Store, ast.Del)) and id(n) not in aug:
                names.add(n.id)

        def visit_FunctionDef(self, n):
            names.add(n.name)

        def visit_Lambda(self, n):
            pass

        def visit_ListComp(self, n):
            for g in n.generators:
                self.visit(g.iter)
        visit_SetComp = visit_DictComp = visit_GeneratorExp = visit_ListComp
    v = V()
    for s in body:
        v.visit(s)
    return names


def _has_loop_escape(body):
    class V(ast.NodeVisitor):
        found = False

        def visit_Break(self, n):
            self.found = True

        def visit_Continue(self, n):
            self.found = True

        def visit_Return(self, n):
            self.found = True

        def visit_For(self, n):
            # break/continue of inner loops are fine; return is not
            for s in ast.walk(n):
                if isinstance(s, ast.Return):
                    self.found = True

        visit_While = visit_For

        def visit_FunctionDef(self, n):
            pass

    v = V()
    for s in body:
        v.visit(s)
    return v.found


KEEP_DECORATORS = {"property", "dataclass", "staticmethod", "cached_property", "classmethod"}


class Xform(ast.NodeTransformer):
    def __init__(self, info, inv_loops, logger_names=("logger",)):
        self.info = info
        # inv_loops: ordinals, or {ordinal: names of the contract's state} (those names are handed to the loop
        # machinery in addition to the names the body assigns: a state component the body only modifies through a
        # callee, or under another local name, is still part of the summarised state)
        self.extra_names = dict(inv_loops) if isinstance(inv_loops, dict) else {}
        self.inv_loops = set(inv_loops or ())
        self.loop_no = 0
        self.depth = 0
        self.logger_names = set(logger_names)
        self.in_class = 0

    # literals
    def visit_Constant(self, n):
        if isinstance(n.value, float):
            return ast.copy_location(
                ast.Call(ast.Name("__F__", ast.Load()), [ast.Constant(repr(n.value))], []), n)
        if isinstance(n.value, complex):
            return ast.copy_location(
                ast.Call(ast.Name("__J__", ast.Load()), [ast.Constant(repr(n.value))], []), n)
        return n

    def visit_ListComp(self, n):
        self.generic_visit(n)
        if len(n.generators) == 1 and not n.generators[0].ifs and not n.generators[0].is_async:
            g = n.generators[0]
            lam = ast.Lambda(ast.arguments(posonlyargs=[], args=[ast.arg("__it")], kwonlyargs=[], kw_defaults=[], defaults=[]),
                             ast.Subscript(ast.List([ast.NamedExpr(g.target, ast.Name("__it", ast.Load())), n.elt], ast.Load()),
                                           ast.Constant(1), ast.Load())) \
                if not isinstance(g.target, ast.Name) else \
                ast.Lambda(ast.arguments(posonlyargs=[], args=[ast.arg(g.target.id)], kwonlyargs=[], kw_defaults=[], defaults=[]), n.elt)
            if isinstance(g.target, ast.Name):
                return ast.copy_location(ast.Call(ast.Name("__pyvc_map__", ast.Load()), [lam, g.iter], []), n)
        return n

    def visit_GeneratorExp(self, n):
        # a single-generator generator expression consumed by sorted()/list()/tuple()/set(): same rewrite as a list
        r = self.visit_ListComp(ast.copy_location(ast.ListComp(n.elt, n.generators), n))
        if isinstance(r, ast.Call) and isinstance(r.func, ast.Name) and r.func.id == "__pyvc_map__":
            r.func = ast.Name("__pyvc_genmap__", ast.Load())      # stays lazy (a real generator) over concrete iterables
            return r
        return n      # not rewritten: it stays the generator expression it was

    def visit_DictComp(self, n):
        self.generic_visit(n)
        if len(n.generators) == 1 and not n.generators[0].ifs:
            g = n.generators[0]
            if isinstance(g.target, ast.Tuple) and all(isinstance(e, ast.Name) for e in g.target.elts) \
                    and len({e.id for e in g.target.elts}) == len(g.target.elts):      # `for _, key, _ in ...` stays as it is
                args = [ast.arg(e.id) for e in g.target.elts]
                lam = ast.Lambda(ast.arguments(posonlyargs=[], args=args, kwonlyargs=[], kw_defaults=[], defaults=[]),
                                 ast.Tuple([n.key, n.value], ast.Load()))
                return ast.copy_location(ast.Call(ast.Name("__pyvc_dictcomp__", ast.Load()), [lam, g.iter], []), n)
            if isinstance(g.target, ast.Name):
                # {key(x): value(x) for x in seq}: the element is passed as ONE argument (marked by the keyword)
                lam = ast.Lambda(ast.arguments(posonlyargs=[], args=[ast.arg(g.target.id)], kwonlyargs=[], kw_defaults=[], defaults=[]),
                                 ast.Tuple([n.key, n.value], ast.Load()))
                return ast.copy_location(ast.Call(ast.Name("__pyvc_dictcomp__", ast.Load()), [lam, g.iter],
                                                  [ast.keyword("single", ast.Constant(True))]), n)
        return n

    def visit_JoinedStr(self, n):
        # f-strings: keep (values are formatted through __format__ of the proxies)
        self.generic_visit(n)
        return n

    def visit_Expr(self, n):
        v = n.value
        if isinstance(v, ast.Constant) and isinstance(v.value, str):
            return ast.copy_location(ast.Pass(), n)
        if isinstance(v, ast.Call):
            f = v.func
            if isinstance(f, ast.Attribute) and isinstance(f.value, ast.Name) and \
                    f.value.id in self.logger_names:
                return ast.copy_location(ast.Pass(), n)
        self.generic_visit(n)
        return n

    def visit_ClassDef(self, n):
        self.in_class += 1
        n.decorator_list = [d for d in n.decorator_list if self._keep_dec(d)]
        n.body = [self.visit(s) for s in n.body]
        self.in_class -= 1
        return n

    def _keep_dec(self, d):
        name = d.id if isinstance(d, ast.Name) else (d.attr if isinstance(d, ast.Attribute) else
                                                      (d.func.id if isinstance(d, ast.Call) and isinstance(d.func, ast.Name) else None))
        if name in KEEP_DECORATORS:
            return True
        self.info.dropped_decorators.append(name or "?")
        return False

    def visit_FunctionDef(self, n):
        n.decorator_list = [d for d in n.decorator_list if self._keep_dec(d)]
        n.returns = None
        for a in n.args.args + n.args.kwonlyargs + n.args.posonlyargs:
            a.annotation = None
        if n.args.vararg:
            n.args.vararg.annotation = None
        if n.args.kwarg:
            n.args.kwarg.annotation = None
        n.args.defaults = [self.visit(d) for d in n.args.defaults]
        n.args.kw_defaults = [self.visit(d) if d is not None else None for d in n.args.kw_defaults]
        saved = self.in_class
        self.in_class = 0
        self.depth += 1
        n.body = self._stmts(n.body)
        self.depth -= 1
        self.in_class = saved
        return n

    def _stmts(self, body):
        out = []
        for s in body:
            r = self.visit(s)
            if isinstance(r, list):
                out.extend(r)
            elif r is not None:
                out.append(r)
        return out or [ast.Pass()]

    def _accumulation_loop(self, n, k):
        """`for x in SEQ: <local assignments>; ACC.append(E)`  or  `...; ACC[K] = E` with ACC a plain local name that the
        body does not otherwise mention: a map over SEQ.  Rewritten into a call that keeps the loop as it is for concrete
        sequences and, for a sequence of symbolic length and an accumulator that is still empty, yields the symbolic list /
        dict a comprehension would give (element expression checked at a generic in-range index).  No invariant needed."""
        if n.orelse or _has_loop_escape(n.body) or not n.body:
            return None
        def is_logger_call(b):
            return isinstance(b, ast.Expr) and isinstance(b.value, ast.Call) and isinstance(b.value.func, ast.Attribute) \
                and isinstance(b.value.func.value, ast.Name) and b.value.func.value.id in self.logger_names
        # docstring-like constants and logger calls are dropped by the extraction anyway
        body = [b for b in n.body if not (isinstance(b, ast.Expr) and isinstance(b.value, ast.Constant)) and not is_logger_call(b)]
        if not body:
            return None
        last = body[-1]
        kind = acc = key = val = None
        if isinstance(last, ast.Expr) and isinstance(last.value, ast.Call) and isinstance(last.value.func, ast.Attribute) \
                and last.value.func.attr == "append" and isinstance(last.value.func.value, ast.Name) \
                and len(last.value.args) == 1 and not last.value.keywords:
            kind, acc, val = "list", last.value.func.value.id, last.value.args[0]
        elif isinstance(last, ast.Assign) and len(last.targets) == 1 and isinstance(last.targets[0], ast.Subscript) \
                and isinstance(last.targets[0].value, ast.Name) and not isinstance(last.targets[0].slice, (ast.Slice, ast.Tuple)):
            kind, acc, key, val = "dict", last.targets[0].value.id, last.targets[0].slice, last.value
        if kind is None:
            return None
        pre = body[:-1]
        locs = set()
        for b in pre:
            # only plain assignments to local names and logger calls (dropped) before the accumulation
            if isinstance(b, ast.Expr) and isinstance(b.value, ast.Call) and isinstance(b.value.func, ast.Attribute) \
                    and isinstance(b.value.func.value, ast.Name) and b.value.func.value.id in self.logger_names:
                continue
            if not (isinstance(b, ast.Assign) and all(isinstance(t, (ast.Name, ast.Tuple)) for t in b.targets)):
                return None
            for t in b.targets:
                for x in ast.walk(t):
                    if isinstance(x, ast.Name):
                        locs.add(x.id)
                    elif not isinstance(x, (ast.Tuple, ast.Store, ast.Load)):
                        return None
        mentions = [x for b in pre for x in ast.walk(b) if isinstance(x, ast.Name) and x.id == acc] + \
                   [x for e in ([key] if key is not None else []) + [val] for x in ast.walk(e) if isinstance(x, ast.Name) and x.id == acc]
        if mentions or acc in locs:
            return None
        for x in ast.walk(ast.Module(pre, [])):
            if isinstance(x, (ast.For, ast.While, ast.FunctionDef, ast.Lambda, ast.Yield, ast.YieldFrom, ast.Await, ast.Global, ast.Nonlocal)):
                return None
        fname = "__acc_body_%d" % k
        self.depth += 1
        new_pre = self._stmts(pre) if pre else []
        ret = ast.Return(ast.Tuple([self.visit(key), self.visit(val)], ast.Load()) if kind == "dict" else self.visit(val))
        self.depth -= 1
        # the loop target is bound from the single argument (tuple targets unpack)
        bind = ast.Assign([n.target], ast.Name("__it", ast.Load()))
        fdef = ast.FunctionDef(name=fname, args=ast.arguments(posonlyargs=[], args=[ast.arg("__it")], kwonlyargs=[], kw_defaults=[], defaults=[]),
                               body=[bind] + [b for b in new_pre if not isinstance(b, ast.Pass)] + [ret], decorator_list=[], returns=None, type_params=[])
        call = ast.Assign([ast.Name(acc, ast.Store())],
                          ast.Call(ast.Name("__pyvc_accum__", ast.Load()),
                                   [ast.Name(acc, ast.Load()), ast.Name(fname, ast.Load()), self.visit(n.iter), ast.Constant(kind)], []))
        for o in (fdef, call):
            ast.copy_location(o, n)
            ast.fix_missing_locations(o)
        return [fdef, call]

    def visit_AugAssign(self, n):
        # `a[idx] op= v` -> `a[idx] = a[idx] op v` when `a` and `idx` are side-effect-free expressions: the same final
        # contents for NumPy arrays (NumPy evaluates the right-hand side before storing; the view that `a[idx]` hands to
        # the in-place operator is written back into `a[idx]`) and for lists; it spares the model the alias between the
        # view and the array
        self.generic_visit(n)
        t = n.target
        PURE = (ast.Name, ast.Constant, ast.Slice, ast.Tuple, ast.Attribute, ast.BinOp, ast.UnaryOp, ast.Subscript, ast.Compare,
                ast.Load, ast.Store, ast.operator, ast.unaryop, ast.cmpop, ast.expr_context)
        if isinstance(t, ast.Subscript) and all(isinstance(x, PURE) for x in ast.walk(t)):
            import copy
            load = copy.deepcopy(t)
            load.ctx = ast.Load()
            new = ast.Assign([t], ast.BinOp(load, n.op, n.value))
            ast.copy_location(new, n)
            ast.fix_missing_locations(new)
            return new
        return n

    def visit_AnnAssign(self, n):
        if self.in_class:
            n.annotation = ast.Name("object", ast.Load())
            if n.value is not None:
                n.value = self.visit(n.value)
            return n
        if n.value is None:
            return ast.copy_location(ast.Pass(), n)
        return ast.copy_location(ast.Assign([n.target], self.visit(n.value)), n)

    def visit_Import(self, n):
        if self.depth == 0:
            return None
        out = []
        for a in n.names:
            tgt = a.asname or a.name.split(".")[0]
            out.append(ast.copy_location(ast.Assign(
                [ast.Name(tgt, ast.Store())],
                ast.Call(ast.Name("__pyvc_import__", ast.Load()),
                         [ast.Constant(a.name), ast.Constant(None)], [])), n))
        return out

    def visit_ImportFrom(self, n):
        if self.depth == 0:
            return None
        out = []
        mod = ("." * n.level) + (n.module or "")
        for a in n.names:
            tgt = a.asname or a.name
            out.append(ast.copy_location(ast.Assign(
                [ast.Name(tgt, ast.Store())],
                ast.Call(ast.Name("__pyvc_import__", ast.Load()),
                         [ast.Constant(mod), ast.Constant(a.name)], [])), n))
        return out

    def visit_For(self, n):
        k = self.loop_no
        self.loop_no += 1
        self.info.loops = self.loop_no
        if k not in self.inv_loops:
            acc = self._accumulation_loop(n, k)
            if acc is not None:
                return acc
            self.generic_visit(n)
            if not n.orelse and n.body and all(isinstance(b, ast.Pass) for b in n.body):
                # the body consisted of dropped statements only (logger calls): the loop has no effect but the
                # evaluation of its iterable; keep that, so a symbolic length needs no invariant
                return ast.copy_location(ast.Expr(n.iter), n)
            return n
        if n.orelse or _has_loop_escape(n.body):
            raise Undecided("loop %d of %s: break/continue/return/else with an invariant" %
                            (k, self.info.qualname))
        tnames = {x.id for x in ast.walk(n.target) if isinstance(x, ast.Name)}
        names = sorted((_assigned_names(n.body) | set(self.extra_names.get(k, ()))) - tnames)
        it = n.iter
        if isinstance(it, ast.Call) and isinstance(it.func, ast.Name) and it.func.id == "range":
            if len(it.args) == 1:
                spec = ast.Call(ast.Name("__pyvc_range__", ast.Load()),
                                [ast.Constant(0), self.visit(it.args[0])], [])
            elif len(it.args) == 2:
                spec = ast.Call(ast.Name("__pyvc_range__", ast.Load()),
                                [self.visit(it.args[0]), self.visit(it.args[1])], [])
            else:
                raise Undecided("range with step under an invariant")
        elif isinstance(it, ast.Call) and isinstance(it.func, ast.Name) and it.func.id == "enumerate":
            spec = ast.Call(ast.Name("__pyvc_seq__", ast.Load()),
                            [self.visit(it.args[0]), ast.Constant(True)], [])
        else:
            spec = ast.Call(ast.Name("__pyvc_seq__", ast.Load()), [self.visit(it), ast.Constant(False)], [])
        L = "__L%d" % k
        names_const = ast.Tuple([ast.Constant(x) for x in names], ast.Load())
        inplace_const = ast.Tuple([ast.Constant(x) for x in sorted(set(names) - _rebound_names(n.body))], ast.Load())

        def snap():
            return ast.Call(ast.Name("__pyvc_snap__", ast.Load()),
                            [ast.Call(ast.Name("locals", ast.Load()), [], []), names_const], [])

        def unpack(method):
            return ast.Assign(
                [ast.Tuple([ast.Name(x, ast.Store()) for x in names], ast.Store())],
                ast.Call(ast.Attribute(ast.Name(L, ast.Load()), method, ast.Load()), [names_const], []))

        pre = ast.Assign([ast.Name(L, ast.Store())],
                         ast.Call(ast.Name("__pyvc_loop__", ast.Load()),
                                  [ast.Constant(self.info.label), ast.Constant(k), spec, snap(), inplace_const], []))
        body = [unpack("state")] + self._stmts(n.body) + [
            ast.Expr(ast.Call(ast.Attribute(ast.Name(L, ast.Load()), "step", ast.Load()), [snap()], []))]
        loop = ast.For(n.target,
                       ast.Call(ast.Attribute(ast.Name(L, ast.Load()), "iterate", ast.Load()), [], []),
                       body, [])
        post = unpack("final")
        out = [pre, loop, post]
        for o in out:
            ast.copy_location(o, n)
            ast.fix_missing_locations(o)
        return out


UNBOUND = type("Unbound", (), {"__repr__": lambda s: "UNBOUND"})()


def snap(locs, names):
    return {k: locs.get(k, UNBOUND) for k in names}


def extract(modname, qualname, inv_loops=None, label=None):
    """Returns (code object defining the function/class, FuncInfo)."""
    import copy
    mod = module(modname)
    node = mod.find(qualname)
    info = FuncInfo(modname, qualname, node, mod)
    info.label = label or (modname.split(".")[-1] + "." + qualname)
    node = copy.deepcopy(node)
    x = Xform(info, inv_loops)
    if isinstance(node, ast.FunctionDef):
        node = x.visit_FunctionDef(node)
    else:
        node = x.visit_ClassDef(node)
    m = ast.Module([node], [])
    ast.fix_missing_locations(m)
    try:
        code = compile(m, "<pyvc:%s:%s>" % (modname, qualname), "exec")
    except SyntaxError as e:
        # the mechanical rewrite produced something CPython rejects: a limit of the front end on this source, never a
        # statement about the code (found on refactoring R_C18_1: `for _, key, _, _ in TABLE` in a dict comprehension)
        from .sym import Undecided
        raise Undecided("front end: the rewritten source of %s does not compile (%s)" % (qualname, e.msg))
    return code, info, node.name


def exec_module_constant(ns, modname, name, _depth=0, resolve=None):
    """Module-level `NAME = <pure expression>` (constants, other module-level names, attributes such as np.pi,
    arithmetic, tuples; no calls): evaluated in the harness namespace with the same literal rewrite as function
    bodies.  Returns True when the name is now bound.  Anything else is left unbound (-> undecided at use)."""
    mod = module(modname)
    for n in mod.tree.body:
        val = None
        if isinstance(n, ast.Assign) and len(n.targets) == 1 and isinstance(n.targets[0], ast.Name) and n.targets[0].id == name:
            val = n.value
        elif isinstance(n, ast.AnnAssign) and isinstance(n.target, ast.Name) and n.target.id == name and n.value is not None:
            val = n.value
        if val is None:
            continue
        ok = (ast.Constant, ast.Name, ast.Attribute, ast.BinOp, ast.UnaryOp, ast.Tuple, ast.Load, ast.operator, ast.unaryop,
              ast.Dict, ast.List, ast.Set)       # literal lookup tables (parser defaults, variable tables)
        if not all(isinstance(x, ok) for x in ast.walk(val)):
            return False
        for x in ast.walk(val):
            if isinstance(x, ast.Name) and x.id not in ns and _depth < 4:
                # another constant, or (through the caller's resolver) a module-level function / class the constant
                # refers to, e.g. a dispatch table `_STRATEGIES = (("towers", _run_towers), ...)`
                if not exec_module_constant(ns, modname, x.id, _depth + 1, resolve=resolve) and resolve is not None:
                    resolve(x.id)

        class _Lit(ast.NodeTransformer):
            def visit_Constant(self, c):
                if isinstance(c.value, float):
                    return ast.copy_location(ast.Call(ast.Name("__F__", ast.Load()), [ast.Constant(repr(c.value))], []), c)
                return c
        import copy
        e = ast.Expression(_Lit().visit(copy.deepcopy(val)))
        ast.fix_missing_locations(e)
        for k, v in base_namespace().items():
            ns.setdefault(k, v)
        try:
            ns[name] = eval(compile(e, "<pyvc:%s:%s>" % (modname, name), "eval"), ns)
        except Exception:
            return False
        return True
    return False


LOOPSPECS = {}


def _mkloop(label, k, iterable, pre_state, inplace=()):
    from . import engine, sym
    run = sym.engine()
    spec = LOOPSPECS[label][k]
    return engine.LoopCtl(run, k, label, spec, iterable, pre_state, inplace=inplace)


def base_namespace():
    from . import engine, sym
    from . import values
    return {"__F__": sym.F, "__J__": sym.J, "__pyvc_snap__": snap, "__pyvc_map__": values.s_map,
            "__pyvc_dictcomp__": values.s_dictcomp, "__pyvc_genmap__": values.s_genmap, "__pyvc_accum__": values.s_accum,
            "__pyvc_range__": engine.RangeIter, "__pyvc_seq__": engine.SeqIter,
            "__pyvc_loop__": _mkloop,
            # numba.prange: a range whose iterations may run concurrently; under A4 (a kernel computes what its Python body
            # computes) it is the sequential range of the builtins shim
            "prange": values.shim_builtins()["range"]}


def resolve_loop_selectors(modname, qualname, loop_specs):
    """Loop contracts may be keyed by ordinal (source order of `for` statements) or by a selector that survives
    harmless edits: "outer:NAME" / "inner:NAME" = the outermost / innermost `for` whose body assigns NAME (or
    calls NAME.append/...); "outer:NAME!OTHER" additionally requires that OTHER is not assigned in the loop.  A selector that matches no loop drops its contract (the code no longer has that
    loop; whatever replaces it is executed as it stands)."""
    if not loop_specs or not any(isinstance(k, str) for k in loop_specs):
        return loop_specs
    node = module(modname).find(qualname)
    found = []      # (ordinal, depth, assigned names)

    class V(ast.NodeVisitor):
        def __init__(self):
            self.k, self.depth = 0, 0

        def visit_For(self, n):
            found.append((self.k, self.depth, _assigned_names(n.body)))
            self.k += 1
            self.depth += 1
            self.generic_visit(n)
            self.depth -= 1
    V().visit(node)
    out = {}
    for key, spec in loop_specs.items():
        if not isinstance(key, str):
            out.setdefault(key, spec)
            continue
        # alternatives "a|b": the first that matches; "nest:K" / "nest:K.J" = K-th outermost loop of the function /
        # J-th loop directly inside it, in source order (structural fallback when the locals were renamed)
        for alt in key.split("|"):
            how, name = alt.split(":", 1)
            if how == "nest":
                path = [int(x) for x in name.split(".")]
                k = _loop_at_path(node, path)
                if k is None or k in out:
                    continue
                out[k] = spec
                break
            name, _, excl = name.partition("!")       # "NAME!OTHER": assigns NAME but not OTHER
            cands = [(k, d) for (k, d, names) in found if name in names and not (excl and excl in names)]
            if not cands:
                continue
            k = min(cands, key=lambda c: (c[1], c[0]))[0] if how == "outer" else max(cands, key=lambda c: (c[1], c[0]))[0]
            out.setdefault(k, spec)
            break
    return out


def _loop_at_path(fnode, path):
    """Ordinal (source order of all `for` statements of the function) of the loop reached by descending `path`:
    path[0]-th loop at nesting depth 0, then path[1]-th loop directly nested in it, ..."""
    order = []

    class V(ast.NodeVisitor):
        def visit_For(self, n):
            order.append(n)
            self.generic_visit(n)
    V().visit(fnode)

    def direct(node):
        res = []

        class W(ast.NodeVisitor):
            def visit_For(self, n):
                res.append(n)      # do not descend: only loops directly below `node`

            def visit_FunctionDef(self, n):
                if n is node:
                    self.generic_visit(n)
        w = W()
        for ch in ast.iter_child_nodes(node):
            w.visit(ch)
        return res
    cur = fnode
    for p in path:
        ds = direct(cur)
        if p >= len(ds):
            return None
        cur = ds[p]
    return order.index(cur)


def compile_into(ns, modname, qualname, loop_specs=None, label=None):
    """Define modname:qualname inside the shared namespace `ns`; returns (object, FuncInfo).
    loop_specs: {ordinal: spec} for the loops that carry an invariant; they are registered
    under `label` in ns['__pyvc_loopspecs__'] and looked up by the engine at run time."""
    label = label or (modname.split(".")[-1] + "." + qualname)
    loop_specs = resolve_loop_selectors(modname, qualname, loop_specs)
    code, info, name = extract(modname, qualname, inv_loops={k: tuple(getattr(v, "state_names", ()) or ()) for k, v in (loop_specs or {}).items()},
                               label=label)
    for k, v in base_namespace().items():
        ns.setdefault(k, v)
    LOOPSPECS[label] = dict(loop_specs or {})
    exec(code, ns)
    return ns[name], info
