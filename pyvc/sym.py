"""Symbolic scalar proxies: Num (int/real), Cx (complex as a pair), SBool, SStr.

The real function bodies of /repo are executed by CPython itself on these proxies (see
engine.py); every operation builds a z3 term.  Concrete numbers are kept exact (int /
Fraction): a float literal denotes its decimal value (assumption A1).
"""
from fractions import Fraction
import z3

_ENGINE = [None]
_SERIAL = [0]


def next_serial():
    _SERIAL[0] += 1
    return _SERIAL[0]


def note_mutation(obj):
    """In-place modification of a container (array store, list append, dict insert): recorded while the generic
    iteration of a loop under contract runs, so that the loop's frame can be checked (engine.LoopCtl.step)."""
    e = _ENGINE[0]
    log = getattr(e, "mut_log", None) if e is not None else None
    if log is not None:
        log.append(obj)  # current engine (engine.Run); set by engine.py


def engine():
    e = _ENGINE[0]
    if e is None:
        raise RuntimeError("no active pyvc run")
    return e


class Undecided(Exception):
    """Construct outside the supported subset: the run is undecided (never a violation)."""


# ------------------------------------------------------------------------------- helpers
def _is_conc(x):
    return isinstance(x, (int, Fraction)) and not isinstance(x, bool)


def _toz3(x, real=False):
    if isinstance(x, bool):
        x = int(x)
    if isinstance(x, int):
        return z3.RealVal(x) if real else z3.IntVal(x)
    if isinstance(x, Fraction):
        if x.denominator == 1 and not real:
            return z3.IntVal(x.numerator)
        return z3.Q(x.numerator, x.denominator)
    return x


def fresh_name(base):
    return engine().fresh(base)


class SBool:
    __slots__ = ("t",)

    def __init__(self, t):
        if isinstance(t, SBool):
            t = t.t
        self.t = t

    @property
    def concrete(self):
        return isinstance(self.t, bool)

    def z(self):
        return z3.BoolVal(self.t) if isinstance(self.t, bool) else self.t

    def __bool__(self):
        if isinstance(self.t, bool):
            return self.t
        return engine().branch(self.t)

    def __and__(self, o):
        o = sbool(o)
        if self.concrete:
            return o if self.t else SBool(False)
        if o.concrete:
            return self if o.t else SBool(False)
        return SBool(z3.And(self.t, o.t))

    __rand__ = __and__

    def __or__(self, o):
        o = sbool(o)
        if self.concrete:
            return SBool(True) if self.t else o
        if o.concrete:
            return SBool(True) if o.t else self
        return SBool(z3.Or(self.t, o.t))

    __ror__ = __or__

    def __invert__(self):
        if self.concrete:
            return SBool(not self.t)
        return SBool(z3.Not(self.t))

    def implies(self, o):
        return (~self) | sbool(o)

    def __rshift__(self, o):  # a >> b  ==  a implies b
        return self.implies(o)

    def iff(self, o):
        o = sbool(o)
        return SBool(self.z() == o.z()) if not (self.concrete and o.concrete) else SBool(self.t == o.t)

    def __eq__(self, o):
        return self.iff(o)

    def __ne__(self, o):
        return ~self.iff(o)

    def __hash__(self):
        return 7

    def __repr__(self):
        return "SBool(%s)" % (self.t,)


def sbool(x):
    if isinstance(x, SBool):
        return x
    if isinstance(x, bool):
        return SBool(x)
    if isinstance(x, z3.BoolRef):
        return SBool(x)
    if isinstance(x, Num):
        return x != 0
    if x is None:
        return SBool(False)
    if isinstance(x, (int, Fraction)):
        return SBool(x != 0)
    raise Undecided("cannot use %r as a truth value" % (type(x),))


def And(*xs):
    r = SBool(True)
    for x in xs:
        r = r & sbool(x)
    return r


def Or(*xs):
    r = SBool(False)
    for x in xs:
        r = r | sbool(x)
    return r


def Not(x):
    return ~sbool(x)


def Implies(a, b):
    return sbool(a).implies(b)


# --------------------------------------------------------------------------------- Num
class Num:
    """int or real scalar.  self.t is int | Fraction (concrete) or a z3 ArithRef."""
    __slots__ = ("t", "pyfloat")

    def __init__(self, t, pyfloat=None):
        if isinstance(t, Num):
            pyfloat = t.pyfloat if pyfloat is None else pyfloat
            t = t.t
        if isinstance(t, bool):
            t = int(t)
        if isinstance(t, float):
            t = Fraction(repr(t))
            if pyfloat is None:
                pyfloat = True
        self.t = t
        # pyfloat: the Python-level type is float (True) or int (False); matters for dtype
        if pyfloat is None:
            pyfloat = not self.is_int
        self.pyfloat = pyfloat

    # -- classification
    @property
    def concrete(self):
        return isinstance(self.t, (int, Fraction))

    @property
    def is_int(self):
        if isinstance(self.t, int):
            return True
        if isinstance(self.t, Fraction):
            return False
        return self.t.sort().kind() == z3.Z3_INT_SORT

    def z(self, real=False):
        t = _toz3(self.t, real=real)
        if real and t.sort().kind() == z3.Z3_INT_SORT:
            t = z3.ToReal(t)
        return t

    def zr(self):
        return self.z(real=True)

    # -- arithmetic
    def _bin(self, o, op, rev=False):
        if isinstance(o, Cx):
            return NotImplemented
        if isinstance(o, complex):
            return NotImplemented
        if not isinstance(o, Num):
            if isinstance(o, (int, float, Fraction)):
                o = Num(o)
            else:
                return NotImplemented
        a, b = (o, self) if rev else (self, o)
        fl = a.pyfloat or b.pyfloat
        if a.concrete and b.concrete:
            if op == "+":
                return Num(a.t + b.t, fl)
            if op == "-":
                return Num(a.t - b.t, fl)
            if op == "*":
                return Num(a.t * b.t, fl)
        # algebraic simplifications that keep terms small
        if op == "*":
            if a.concrete and a.t == 0 or b.concrete and b.t == 0:
                return Num(0, fl)
            if a.concrete and a.t == 1:
                return Num(b.t, fl)
            if b.concrete and b.t == 1:
                return Num(a.t, fl)
        if op == "+":
            if a.concrete and a.t == 0:
                return Num(b.t, fl)
            if b.concrete and b.t == 0:
                return Num(a.t, fl)
        if op == "-":
            if b.concrete and b.t == 0:
                return Num(a.t, fl)
        real = not (a.is_int and b.is_int)
        za, zb = a.z(real), b.z(real)
        if op == "+":
            return Num(za + zb, fl)
        if op == "-":
            return Num(za - zb, fl)
        if op == "*":
            return Num(za * zb, fl)
        raise AssertionError(op)

    def __add__(self, o):
        return self._bin(o, "+")

    def __radd__(self, o):
        return self._bin(o, "+", True)

    def __sub__(self, o):
        return self._bin(o, "-")

    def __rsub__(self, o):
        return self._bin(o, "-", True)

    def __mul__(self, o):
        return self._bin(o, "*")

    def __rmul__(self, o):
        return self._bin(o, "*", True)

    def __neg__(self):
        if self.concrete:
            return Num(-self.t, self.pyfloat)
        return Num(-self.t, self.pyfloat)

    def __pos__(self):
        return self

    def __truediv__(self, o):
        if isinstance(o, (Cx, complex)) or hasattr(o, "axes"):
            return NotImplemented
        o = num(o)
        if o.concrete and o.t == 0:
            raise ZeroDivisionError("division by zero")
        if self.concrete and o.concrete:
            return Num(Fraction(self.t) / Fraction(o.t), True)
        if self.concrete and self.t == 0:
            return Num(0, True)
        if o.concrete and o.t == 1:
            return Num(self.t, True)
        if _ENGINE[0] is not None:
            _ENGINE[0].note_division(o)
        return Num(self.zr() / o.zr(), True)

    def __rtruediv__(self, o):
        return num(o).__truediv__(self)

    def _intdiv(self, o, mod, rev=False):
        if hasattr(o, "axes"):
            return NotImplemented
        o = num(o)
        a, b = (o, self) if rev else (self, o)
        if a.concrete and b.concrete and a.is_int and b.is_int:
            return Num(a.t % b.t if mod else a.t // b.t)
        if not (a.is_int and b.is_int):
            # real floor division / modulo: q = floor(a/b) is a fresh integer whose defining fact
            # (b*q <= a < b*(q+1) for b > 0) stays outside the path condition; a % b = a - b*q
            run = engine()
            run.require_positive_divisor(b)
            q = fresh_int("floordiv")
            run.__dict__.setdefault("floor_defs", []).append((q, a, b))
            return (a - b * q) if mod else Num(q.t, True)
        # z3 div/mod are Euclidean; they agree with Python's floor semantics for b > 0
        engine().require_positive_divisor(b)
        za, zb = a.z(), b.z()
        return Num(za % zb if mod else za / zb)

    def __floordiv__(self, o):
        return self._intdiv(o, False)

    def __rfloordiv__(self, o):
        return self._intdiv(o, False, True)

    def __mod__(self, o):
        return self._intdiv(o, True)

    def __rmod__(self, o):
        return self._intdiv(o, True, True)

    def __pow__(self, e):
        if isinstance(e, (Cx, complex)) or hasattr(e, "axes"):
            return NotImplemented
        e = num(e)
        if e.concrete and e.is_int:
            k = e.t
            if k >= 0:
                r = Num(1, self.pyfloat or e.pyfloat)
                for _ in range(k):
                    r = r * self
                if e.pyfloat and not r.pyfloat:
                    r = Num(r.t, True)
                return r
            return Num(1) / (self ** (-k))
        if e.concrete and e.t.denominator == 1:
            return self ** Num(int(e.t), True)
        if self.concrete and e.concrete and self.t == 0:
            return Num(0, True)
        from . import transc
        return transc.power(self, e)

    def __rpow__(self, b):
        return num(b) ** self

    def __abs__(self):
        if self.concrete:
            return Num(abs(self.t), self.pyfloat)
        return Num(z3.If(self.t >= 0, self.t, -self.t), self.pyfloat)

    # -- comparisons
    def _cmp(self, o, op):
        if isinstance(o, (Cx, complex)):
            if op in ("==", "!="):
                return Cx(self, 0)._cmp(o, op)
            raise TypeError("ordering complex")
        if o is None or isinstance(o, (str, SStr, tuple, list)):
            return SBool(op == "!=")
        o = num(o)
        if self.concrete and o.concrete:
            a, b = self.t, o.t
            return SBool({"==": a == b, "!=": a != b, "<": a < b, "<=": a <= b,
                          ">": a > b, ">=": a >= b}[op])
        real = not (self.is_int and o.is_int)
        a, b = self.z(real), o.z(real)
        return SBool({"==": lambda: a == b, "!=": lambda: a != b, "<": lambda: a < b,
                      "<=": lambda: a <= b, ">": lambda: a > b, ">=": lambda: a >= b}[op]())

    def __eq__(self, o):
        return self._cmp(o, "==")

    def __ne__(self, o):
        return self._cmp(o, "!=")

    def __lt__(self, o):
        return self._cmp(o, "<")

    def __le__(self, o):
        return self._cmp(o, "<=")

    def __gt__(self, o):
        return self._cmp(o, ">")

    def __ge__(self, o):
        return self._cmp(o, ">=")

    def __hash__(self):
        if self.concrete:
            return hash(self.t)
        return 11

    def __bool__(self):
        return bool(self != 0)

    def __index__(self):
        if self.concrete and self.is_int:
            return self.t
        raise Undecided("symbolic value used where a concrete int is required")

    def __int__(self):
        if self.concrete:
            return int(self.t)
        raise Undecided("int() of a symbolic value outside the shim")

    def __float__(self):
        if self.concrete:
            return float(self.t)
        raise Undecided("float() of a symbolic value")

    def __format__(self, spec):
        return "<num>"

    def __repr__(self):
        return "Num(%s)" % (self.t,)

    __str__ = __repr__

    # numpy-ish
    @property
    def real(self):
        return self

    @property
    def imag(self):
        return Num(0, True)

    @property
    def ndim(self):
        return 0

    @property
    def shape(self):
        return ()

    def conjugate(self):
        return self

    def item(self):
        return self

    def copy(self):
        return self

    def tolist(self):
        return self

    def __getitem__(self, key):
        # 0-d array semantics: x[..., np.newaxis] / x[None] is a one-element array
        ks = key if isinstance(key, tuple) else (key,)
        if all(k is Ellipsis or k is None for k in ks):
            from . import arrays
            a = arrays.full([], self, "float" if self.pyfloat else "int")
            for k in ks:
                if k is None:
                    a = arrays.Arr(a.axes + [arrays.Axis(1)], (lambda a: lambda *c: a.at(*c[:-1]))(a), a.dtype)
            return a
        raise TypeError("scalar is not subscriptable")


def num(x):
    if isinstance(x, Num):
        return x
    if isinstance(x, (int, float, Fraction)):
        return Num(x)
    if isinstance(x, z3.ArithRef):
        return Num(x)
    if isinstance(x, SBool):
        if x.concrete:
            return Num(int(x.t))
        return Num(z3.If(x.t, 1, 0))
    raise Undecided("not a number: %r" % (type(x),))


def F(s):
    """Float literal of the source, by its decimal text (A1)."""
    return Num(Fraction(s), True)


def ite(c, a, b):
    c = sbool(c)
    if c.concrete:
        return a if c.t else b
    if isinstance(a, Cx) or isinstance(b, Cx):
        a, b = cx(a), cx(b)
        return Cx(ite(c, a.re, b.re), ite(c, a.im, b.im))
    if isinstance(a, SBool) or isinstance(b, SBool) or isinstance(a, bool):
        a, b = sbool(a), sbool(b)
        return SBool(z3.If(c.t, a.z(), b.z()))
    a, b = num(a), num(b)
    real = not (a.is_int and b.is_int)
    if a.concrete and b.concrete and a.t == b.t:
        return a
    return Num(z3.If(c.t, a.z(real), b.z(real)), a.pyfloat or b.pyfloat)


def smax(a, b):
    a, b = num(a), num(b)
    if a.concrete and b.concrete:
        return a if a.t >= b.t else b
    return ite(a >= b, a, b)


def smin(a, b):
    a, b = num(a), num(b)
    if a.concrete and b.concrete:
        return a if a.t <= b.t else b
    return ite(a <= b, a, b)


# ---------------------------------------------------------------------------------- Cx
class Cx:
    __slots__ = ("re", "im")

    def __init__(self, re, im=0):
        if isinstance(re, complex):
            re, im = re.real, re.imag
        self.re = num(re)
        self.im = num(im)
        if not self.re.pyfloat:
            self.re = Num(self.re.t, True)
        if not self.im.pyfloat:
            self.im = Num(self.im.t, True)

    def _co(self, o):
        if isinstance(o, Cx):
            return o
        if isinstance(o, complex):
            return Cx(Fraction(repr(o.real)) if o.real == o.real else 0, Fraction(repr(o.imag)))
        if isinstance(o, (Num, int, float, Fraction)):
            return Cx(num(o), 0)
        return None

    def __add__(self, o):
        o = self._co(o)
        if o is None:
            return NotImplemented
        return Cx(self.re + o.re, self.im + o.im)

    __radd__ = __add__

    def __sub__(self, o):
        o = self._co(o)
        if o is None:
            return NotImplemented
        return Cx(self.re - o.re, self.im - o.im)

    def __rsub__(self, o):
        o = self._co(o)
        if o is None:
            return NotImplemented
        return o - self

    def __mul__(self, o):
        o = self._co(o)
        if o is None:
            return NotImplemented
        return Cx(self.re * o.re - self.im * o.im, self.re * o.im + self.im * o.re)

    __rmul__ = __mul__

    def __neg__(self):
        return Cx(-self.re, -self.im)

    def __pos__(self):
        return self

    def __truediv__(self, o):
        o = self._co(o)
        if o is None:
            return NotImplemented
        if o.im.concrete and o.im.t == 0:
            return Cx(self.re / o.re, self.im / o.re)
        d = o.re * o.re + o.im * o.im
        return Cx((self.re * o.re + self.im * o.im) / d, (self.im * o.re - self.re * o.im) / d)

    def __rtruediv__(self, o):
        o = self._co(o)
        if o is None:
            return NotImplemented
        return o / self

    def __pow__(self, e):
        e = num(e)
        if e.concrete and e.t == int(e.t):
            k = int(e.t)
            if k >= 0:
                r = Cx(1, 0)
                for _ in range(k):
                    r = r * self
                return r
            return Cx(1, 0) / (self ** (-k))
        raise Undecided("complex power with non-integer exponent")

    def _cmp(self, o, op):
        o = self._co(o)
        eq = (self.re == o.re) & (self.im == o.im)
        return eq if op == "==" else ~eq

    def __eq__(self, o):
        return self._cmp(o, "==")

    def __ne__(self, o):
        return self._cmp(o, "!=")

    def __hash__(self):
        return 13

    @property
    def real(self):
        return self.re

    @property
    def imag(self):
        return self.im

    def conjugate(self):
        return Cx(self.re, -self.im)

    @property
    def ndim(self):
        return 0

    @property
    def shape(self):
        return ()

    def __format__(self, spec):
        return "<cx>"

    def __repr__(self):
        return "Cx(%s, %s)" % (self.re.t, self.im.t)


def cx(x):
    if isinstance(x, Cx):
        return x
    if isinstance(x, complex):
        return Cx(Fraction(repr(x.real)), Fraction(repr(x.imag)))
    return Cx(num(x), 0)


def J(s):
    """Imaginary literal of the source (e.g. '1j')."""
    return Cx(0, Fraction(s[:-1]))


# -------------------------------------------------------------------------------- SStr
class SStr:
    """Opaque string value: a z3 term of the uninterpreted sort Str (equality only)."""
    __slots__ = ("t",)
    SORT = None

    def __init__(self, t):
        self.t = t

    @classmethod
    def sort(cls):
        if cls.SORT is None:
            cls.SORT = z3.DeclareSort("Str")
        return cls.SORT

    @classmethod
    def fresh(cls, base):
        return cls(z3.Const(fresh_name(base), cls.sort()))

    @classmethod
    def lit(cls, s):
        e = engine()
        return cls(e.string_literal(s))

    def _other(self, o):
        if isinstance(o, SStr):
            return o
        if isinstance(o, str):
            return SStr.lit(o)
        return None

    def __eq__(self, o):
        o = self._other(o)
        if o is None:
            return SBool(False)
        return SBool(self.t == o.t)

    def __ne__(self, o):
        return ~(self == o)

    def __hash__(self):
        return 17

    def __format__(self, spec):
        return "<str>"

    def __repr__(self):
        return "SStr(%s)" % (self.t,)

    def encode(self):
        return self


def fresh_int(base):
    return Num(z3.Int(fresh_name(base)))


def fresh_real(base):
    return Num(z3.Real(fresh_name(base)), True)


def fresh_bool(base):
    return SBool(z3.Bool(fresh_name(base)))


def fresh_cx(base):
    return Cx(fresh_real(base + "_re"), fresh_real(base + "_im"))
