"""Value view: decide  pc |- lhs == rhs  for real-sorted z3 terms built by symbolic
execution, by THEORY SEPARATION (DESIGN 1.2):

  1. `If` terms are resolved by case analysis on their (index-arithmetic) conditions; each
     condition is decided by z3 in linear integer arithmetic under the path condition;
  2. maximal integer-sorted subterms are canonicalised by z3 equality queries (LIA);
     applications of uninterpreted functions (transfer atoms, transforms, cis/exp/sqrt ...)
     become ATOMS, two applications being the same atom iff their arguments are proved equal
     (congruence), recursively;
  3. what remains is an identity between rational functions over the atoms with exact
     rational coefficients, decided by normalisation: N1*D2 - N2*D1 == 0.

Sound, incomplete: a failed identity in a feasible case is reported as `sat` of class
*premise* (the engine then needs a native witness or a baseline regression to call it a
violation).  Division: a/b is treated as a field operation (b != 0 assumed, A6).
"""
from fractions import Fraction
import time

import z3


class NeedSplit(Exception):
    def __init__(self, cond):
        self.cond = cond


class GiveUp(Exception):
    pass


# ------------------------------------------------------------------------------- polys
class Poly:
    __slots__ = ("d",)

    def __init__(self, d=None):
        self.d = d or {}

    @staticmethod
    def const(c):
        c = Fraction(c)
        return Poly({(): c} if c != 0 else {})

    @staticmethod
    def atom(a):
        return Poly({((a, 1),): Fraction(1)})

    def is_zero(self):
        return not self.d

    def __add__(self, o):
        d = dict(self.d)
        for m, c in o.d.items():
            v = d.get(m, 0) + c
            if v == 0:
                d.pop(m, None)
            else:
                d[m] = v
        return Poly(d)

    def __neg__(self):
        return Poly({m: -c for m, c in self.d.items()})

    def __sub__(self, o):
        return self + (-o)

    def __mul__(self, o):
        if len(self.d) * len(o.d) > 400000:
            raise GiveUp("polynomial too large")
        d = {}
        for m1, c1 in self.d.items():
            for m2, c2 in o.d.items():
                m = _mmul(m1, m2)
                v = d.get(m, 0) + c1 * c2
                if v == 0:
                    d.pop(m, None)
                else:
                    d[m] = v
        return Poly(d)

    def scale(self, c):
        if c == 0:
            return Poly()
        return Poly({m: v * c for m, v in self.d.items()})

    def is_const(self):
        return all(m == () for m in self.d)

    def const_value(self):
        return self.d.get((), Fraction(0))

    def atoms(self):
        s = set()
        for m in self.d:
            for a, _ in m:
                s.add(a)
        return s

    def eval(self, env):
        r = Fraction(0)
        for m, c in self.d.items():
            t = c
            for a, e in m:
                t *= env[a] ** e
            r += t
        return r

    def __repr__(self):
        return " + ".join("%s*%s" % (c, m) for m, c in list(self.d.items())[:6]) or "0"


def _mmul(m1, m2):
    if not m1:
        return m2
    if not m2:
        return m1
    d = dict(m1)
    for a, e in m2:
        d[a] = d.get(a, 0) + e
    return tuple(sorted(d.items()))


class RF:
    __slots__ = ("n", "d")

    def __init__(self, n, d=None):
        self.n = n
        self.d = d if d is not None else Poly.const(1)
        if self.d.is_const() and not self.d.is_zero():
            c = self.d.const_value()
            if c != 1:
                self.n = self.n.scale(1 / c)
                self.d = Poly.const(1)
        elif self.d.d and self.n.d:
            # cancel the monomial common to every term of numerator and denominator
            common = None
            for m in list(self.n.d) + list(self.d.d):
                dm = dict(m)
                if common is None:
                    common = dm
                else:
                    common = {a: min(e, dm[a]) for a, e in common.items() if a in dm}
                if not common:
                    break
            if common:
                def strip(p):
                    out = {}
                    for m, c in p.d.items():
                        dm = dict(m)
                        for a, e in common.items():
                            dm[a] -= e
                            if dm[a] == 0:
                                del dm[a]
                        out[tuple(sorted(dm.items()))] = c
                    return Poly(out)
                self.n, self.d = strip(self.n), strip(self.d)
                if self.d.is_const():
                    c = self.d.const_value()
                    if c != 1:
                        self.n = self.n.scale(1 / c)
                        self.d = Poly.const(1)

    def __add__(self, o):
        if self.d.is_const() and o.d.is_const():
            return RF(self.n + o.n)
        if _same_poly(self.d, o.d):
            return RF(self.n + o.n, self.d)
        return RF(self.n * o.d + o.n * self.d, self.d * o.d)

    def __sub__(self, o):
        return self + RF(-o.n, o.d)

    def __mul__(self, o):
        return RF(self.n * o.n, self.d * o.d)

    def __truediv__(self, o):
        if o.n.is_zero():
            raise GiveUp("division by a term that is identically zero")
        return RF(self.n * o.d, self.d * o.n)

    def equals(self, o):
        return (self.n * o.d - o.n * self.d).is_zero()


def _same_poly(a, b):
    return a.d == b.d


# -------------------------------------------------------------------------- normaliser
ARITH = {z3.Z3_OP_ADD, z3.Z3_OP_SUB, z3.Z3_OP_MUL, z3.Z3_OP_DIV, z3.Z3_OP_UMINUS, z3.Z3_OP_POWER}


def pure_int(t, _memo={}):
    """True if the formula mentions no real-sorted subterm (index arithmetic only)."""
    k = t.get_id()
    if k in _memo and _memo[k][0].eq(t):
        return _memo[k][1]
    ok = True
    stack = [t]
    seen = set()
    while stack:
        x = stack.pop()
        i = x.get_id()
        if i in seen:
            continue
        seen.add(i)
        if z3.is_quantifier(x):
            ok = False
            break
        if x.sort().kind() == z3.Z3_REAL_SORT:
            ok = False
            break
        if z3.is_app(x) and x.decl().kind() == z3.Z3_OP_UNINTERPRETED and x.sort().kind() in (z3.Z3_INT_SORT, z3.Z3_BOOL_SORT):
            continue      # an integer-valued application (e.g. trunc(halo/dx)) is an atom of the index arithmetic
        for j in range(x.num_args()):
            stack.append(x.arg(j))
    _memo[k] = (t, ok)      # keep the term alive: AST ids are reused after collection
    return ok


class Case:
    """One leaf of the case analysis: a solver holding pc + decided conditions."""

    def __init__(self, solver, stats, expand_int=False, int_solver=None):
        self.s = solver
        self.si = int_solver if int_solver is not None else solver   # index arithmetic only
        self.stats = stats
        self.expand_int = expand_int
        self.int_reps = []      # list of (term, id)
        self.int_cache = {}
        self.apps = {}          # decl name -> list of (argkeys, atom id)
        self.memo = {}
        self.cond_cache = {}
        self.atom_names = {}
        self.atom_info = {}     # atom id -> (function name, [arg RFs])
        self.atom_term = {}     # atom id -> representative z3 term
        self.defs = []          # definitional atoms for large intermediate quantities
        self.compress_at = None
        self.assumptions = []   # z3 bools (path condition): real comparisons are also used at the RF level
        self._signs = None
        self.natoms = 0

    def new_atom(self, desc):
        self.natoms += 1
        self.atom_names[self.natoms] = desc
        return self.natoms

    def _chk(self, sv):
        """check() with accounting: an 'unknown' answer (timeout / resource limit) taints the case, so a
        failed identity is then reported as undecided, never as refuted (verdicts must not depend on load)"""
        r = sv.check()
        if r == z3.unknown:
            self.stats["unknown_queries"] = self.stats.get("unknown_queries", 0) + 1
        return r

    def entails(self, c):
        k = c.get_id()
        if k in self.cond_cache and self.cond_cache[k][0].eq(c):
            return self.cond_cache[k][1]
        self.stats["queries"] += 1
        sv = self.si if pure_int(c) else self.s
        sv.push()
        sv.add(z3.Not(c))
        r = self._chk(sv)
        sv.pop()
        if r == z3.unsat:
            self.cond_cache[k] = (c, True)
            return True
        sv.push()
        sv.add(c)
        r2 = self._chk(sv)
        sv.pop()
        v = False if r2 == z3.unsat else None
        self.cond_cache[k] = (c, v)
        return v

    def int_rep(self, t):
        k = t.get_id()
        if k in self.int_cache and self.int_cache[k][0].eq(t):
            return self.int_cache[k][1]
        if z3.is_int_value(t):
            r = ("ival", t.as_long())
            self.int_cache[k] = (t, r)
            return r
        for (u, uid) in self.int_reps:
            if u.eq(t):
                self.int_cache[k] = (t, uid)
                return uid
        for (u, uid) in self.int_reps:
            self.stats["queries"] += 1
            self.si.push()
            self.si.add(t != u)
            r = self._chk(self.si)
            self.si.pop()
            if r == z3.unsat:
                self.int_cache[k] = (t, uid)
                return uid
        for (u, uid) in self.int_reps:
            self.stats["queries"] += 1
            self.si.push()
            self.si.add(t != -u)
            r = self._chk(self.si)
            self.si.pop()
            if r == z3.unsat:
                self.int_cache[k] = (t, ("neg", uid))
                return ("neg", uid)
        uid = ("int", self.new_atom("int:" + _short(t)))
        self.atom_term[uid] = z3.ToReal(t)
        self.int_reps.append((t, uid))
        self.int_cache[k] = (t, uid)
        return uid

    def int_value(self, t):
        """If the assumptions force the integer term to a constant, return it."""
        if z3.is_int_value(t):
            return t.as_long()
        self.stats["queries"] += 1
        if self._chk(self.si) != z3.sat:
            return None
        try:
            v = self.si.model().eval(t, model_completion=True)
        except z3.Z3Exception:
            return None
        if not z3.is_int_value(v):
            return None
        self.si.push()
        self.si.add(t != v)
        r = self._chk(self.si)
        self.si.pop()
        return v.as_long() if r == z3.unsat else None

    def norm_int(self, t):
        """Integer-sorted term used as a real: polynomial over canonical integer atoms."""
        if z3.is_int_value(t):
            return RF(Poly.const(t.as_long()))
        if self.expand_int and z3.is_app(t):
            kk = t.decl().kind()
            if kk == z3.Z3_OP_ADD:
                r = self.norm_int(t.arg(0))
                for k in range(1, t.num_args()):
                    r = r + self.norm_int(t.arg(k))
                return r
            if kk == z3.Z3_OP_SUB:
                r = self.norm_int(t.arg(0))
                for k in range(1, t.num_args()):
                    r = r - self.norm_int(t.arg(k))
                return r
            if kk == z3.Z3_OP_UMINUS:
                z = self.norm_int(t.arg(0))
                return RF(-z.n, z.d)
            if kk == z3.Z3_OP_MUL:
                r = RF(Poly.const(1))
                for k in range(t.num_args()):
                    r = r * self.norm_int(t.arg(k))
                return r
        if z3.is_app(t) and t.decl().kind() == z3.Z3_OP_MUL:
            nonconst = [t.arg(k) for k in range(t.num_args()) if not z3.is_int_value(t.arg(k))]
            if len(nonconst) >= 2:
                # products are outside linear arithmetic: multiply the factors' normal forms
                r = RF(Poly.const(1))
                for k in range(t.num_args()):
                    r = r * self.norm_int(t.arg(k))
                return r
        v = self.int_value(t)
        if v is not None:
            return RF(Poly.const(v))
        rep = self.int_rep(t)
        if rep[0] == "ival":
            return RF(Poly.const(rep[1]))
        if rep[0] == "neg":
            return RF(-Poly.atom(rep[1]))
        return RF(Poly.atom(rep))

    def norm(self, t):
        k = t.get_id()
        hit = self.memo.get(k)
        if hit is not None and hit[0].eq(t):
            return hit[1]
        r = self._norm(t)
        if self.compress_at is not None and len(r.n.d) + len(r.d.d) > self.compress_at:
            r = self.compress(r, t)
        self.memo[k] = (t, r)      # keeps t alive: z3 AST ids are reused after collection
        return r

    def compress(self, rf, t):
        """Name a large intermediate quantity by a definitional atom (the same quantity built on
        the other side of the equation gets the same atom).  Sound: it only forgets structure."""
        for (orf, aid) in self.defs:
            if len(orf.n.d) == len(rf.n.d) and len(orf.d.d) == len(rf.d.d) and orf.n.d == rf.n.d and orf.d.d == rf.d.d:
                return RF(Poly.atom(aid))
        for (orf, aid) in self.defs:
            try:
                if self.rf_equal(orf, rf):
                    return RF(Poly.atom(aid))
            except GiveUp:
                pass
        aid = ("def", self.new_atom("def:" + _short(t)))
        self.atom_term[aid] = t
        self.defs.append((rf, aid))
        return RF(Poly.atom(aid))

    def _norm(self, t):
        if z3.is_rational_value(t):
            return RF(Poly.const(Fraction(t.numerator_as_long(), t.denominator_as_long())))
        if z3.is_int_value(t):
            return RF(Poly.const(t.as_long()))
        if t.sort().kind() == z3.Z3_INT_SORT:
            return self.norm_int(t)
        d = t.decl()
        k = d.kind()
        if k == z3.Z3_OP_TO_REAL:
            return self.norm_int(t.arg(0))
        if k == z3.Z3_OP_ADD:
            r = self.norm(t.arg(0))
            for i in range(1, t.num_args()):
                r = r + self.norm(t.arg(i))
            return r
        if k == z3.Z3_OP_SUB:
            r = self.norm(t.arg(0))
            for i in range(1, t.num_args()):
                r = r - self.norm(t.arg(i))
            return r
        if k == z3.Z3_OP_MUL:
            r = self.norm(t.arg(0))
            for i in range(1, t.num_args()):
                r = r * self.norm(t.arg(i))
            return r
        if k == z3.Z3_OP_DIV:
            return self.norm(t.arg(0)) / self.norm(t.arg(1))
        if k == z3.Z3_OP_UMINUS:
            z = self.norm(t.arg(0))
            return RF(-z.n, z.d)
        if k == z3.Z3_OP_POWER:
            e = t.arg(1)
            if z3.is_rational_value(e) and e.denominator_as_long() == 1 and 0 <= e.numerator_as_long() <= 8:
                b = self.norm(t.arg(0))
                r = RF(Poly.const(1))
                for _ in range(e.numerator_as_long()):
                    r = r * b
                return r
            return self.app(t)
        if k == z3.Z3_OP_ITE:
            c = t.arg(0)
            e = self.decide_by_sign(c)
            if e is None:
                e = self.entails(c)
            if e is None:
                c2 = self.normalised_condition(c)
                if not c2.eq(c):
                    e = self.entails(c2)
                    if e is None:
                        c = c2
            if e is True:
                return self.norm(t.arg(1))
            if e is False:
                return self.norm(t.arg(2))
            raise NeedSplit(c)
        if k == z3.Z3_OP_UNINTERPRETED:
            return self.app(t)
        if k == z3.Z3_OP_TO_INT:
            return self.norm_int(t)
        raise GiveUp("unsupported term kind %s" % d.name())

    def app(self, t):
        d = t.decl()
        name = d.name() + "/" + str(d.kind())
        args = []
        for i in range(t.num_args()):
            a = t.arg(i)
            if a.sort().kind() == z3.Z3_INT_SORT:
                rf = self.norm_int(a)
                args.append(rf)
            elif a.sort().kind() == z3.Z3_REAL_SORT:
                args.append(self.norm(a))
            else:
                args.append(("raw", a))
        v = _builtin_value(d.name(), args)
        if v is not None:
            return RF(Poly.const(v))
        rw = self.rewrite_app(d.name(), args, t)
        if rw is not None:
            return rw
        lst = self.apps.setdefault(name, [])
        for (oargs, aid) in lst:
            ok = True
            for x, y in zip(args, oargs):
                if isinstance(x, tuple):
                    if not (isinstance(y, tuple) and x[1].eq(y[1])):
                        ok = False
                        break
                elif isinstance(y, tuple) or not self.rf_equal(x, y):
                    ok = False
                    break
            if ok:
                return RF(Poly.atom(aid))
        aid = ("app", self.new_atom(_short(t)))
        lst.append((args, aid))
        self.atom_info[aid] = (d.name(), args)
        self.atom_term[aid] = t
        return RF(Poly.atom(aid))

    def poly_to_term(self, p):
        terms = []
        for mono, c in p.d.items():
            t = z3.RealVal(str(c))
            for atom, e in mono:
                at = self.atom_term.get(atom)
                if at is None:
                    raise GiveUp("atom without representative term")
                for _ in range(e):
                    t = t * at
            terms.append(t)
        return z3.Sum(terms) if terms else z3.RealVal(0)

    def rf_to_term(self, rf):
        n = self.poly_to_term(rf.n)
        if rf.d.is_const():
            return n if rf.d.const_value() == 1 else n / z3.RealVal(str(rf.d.const_value()))
        return n / self.poly_to_term(rf.d)

    def known_signs(self):
        """Real comparisons among the assumptions, as (RF of lhs - rhs, op)."""
        if self._signs is None:
            self._signs = []
            ops = {z3.Z3_OP_LT: "<", z3.Z3_OP_LE: "<=", z3.Z3_OP_GT: ">", z3.Z3_OP_GE: ">="}
            for c in self.assumptions:
                neg = False
                if z3.is_not(c):
                    c, neg = c.arg(0), True
                if z3.is_app(c) and c.num_args() == 2 and c.decl().kind() in ops and c.arg(0).sort().kind() == z3.Z3_REAL_SORT:
                    op = ops[c.decl().kind()]
                    if neg:
                        op = {"<": ">=", "<=": ">", ">": "<=", ">=": "<"}[op]
                    try:
                        self._signs.append((self.norm(c.arg(0)) - self.norm(c.arg(1)), op))
                    except (NeedSplit, GiveUp):
                        pass
        return self._signs

    def decide_by_sign(self, c):
        """Decide a real comparison whose difference is (the negative of) an assumed one."""
        ops = {z3.Z3_OP_LT: "<", z3.Z3_OP_LE: "<=", z3.Z3_OP_GT: ">", z3.Z3_OP_GE: ">="}
        if not (z3.is_app(c) and c.num_args() == 2 and c.decl().kind() in ops and c.arg(0).sort().kind() == z3.Z3_REAL_SORT):
            return None
        try:
            q = self.norm(c.arg(0)) - self.norm(c.arg(1))
        except (NeedSplit, GiveUp):
            return None
        qop = ops[c.decl().kind()]
        table = {  # known e op 0  ->  truth of q qop 0 when q == e
            ("<", "<"): True, ("<", "<="): True, ("<", ">"): False, ("<", ">="): False,
            ("<=", ">"): False, ("<=", "<="): True,
            (">", ">"): True, (">", ">="): True, (">", "<"): False, (">", "<="): False,
            (">=", "<"): False, (">=", ">="): True}
        flip = {"<": ">", "<=": ">=", ">": "<", ">=": "<="}
        for e, op in self.known_signs():
            try:
                if self.rf_equal(q, e):
                    r = table.get((op, qop))
                    if r is not None:
                        return r
                if self.rf_equal(q, RF(-e.n, e.d)):
                    r = table.get((flip[op], qop))
                    if r is not None:
                        return r
            except GiveUp:
                pass
        return None

    def normalised_condition(self, c):
        """Rebuild a real comparison with both sides normalised (log/exp/pow rules applied), so
        that the solver sees e.g. z[n] as zm.  Anything else is returned unchanged."""
        try:
            if z3.is_app(c) and c.num_args() == 2 and c.arg(0).sort().kind() == z3.Z3_REAL_SORT:
                k = c.decl().kind()
                ops = {z3.Z3_OP_LT: lambda a, b: a < b, z3.Z3_OP_LE: lambda a, b: a <= b, z3.Z3_OP_GT: lambda a, b: a > b,
                       z3.Z3_OP_GE: lambda a, b: a >= b, z3.Z3_OP_EQ: lambda a, b: a == b}
                if k in ops:
                    a, b = self.norm(c.arg(0)), self.norm(c.arg(1))
                    return ops[k](self.rf_to_term(a), self.rf_to_term(b))
        except (NeedSplit, GiveUp):
            pass
        return c

    # ---- named axioms used as rewrite rules (A8): log/exp inverse pair, integer powers,
    #      arctan(1) = pi/4
    def _single_monomial(self, p):
        if len(p.d) != 1:
            return None
        (m, c), = p.d.items()
        return m, c

    def rewrite_app(self, name, args, t=None):
        if name == "cpow_re" and t is not None:
            # np.power(b, e, dtype=complex).real = pow(b, e) for b > 0 (A8 instance), decided here
            b = t.arg(0)
            if self.entails(b > 0) is True or self.entails(self.normalised_condition(b > 0)) is True:
                pw = z3.Function("pow", z3.RealSort(), z3.RealSort(), z3.RealSort())
                return self.norm(pw(t.arg(0), t.arg(1)))
        if name == "pow" and len(args) == 2 and isinstance(args[0], RF) and isinstance(args[1], RF) \
                and args[1].n.is_const() and args[1].d.is_const() and args[0].d.is_const():
            # pow(a^k, p/q) = a^(k*p/q) for a positive atom a when k*p/q is an integer (A8)
            mn = self._single_monomial(args[0].n)
            e = args[1].n.const_value() / args[1].d.const_value()
            if mn is not None and mn[1] == args[0].d.const_value() and len(mn[0]) == 1:
                atom, k = mn[0][0]
                ke = e * k
                if ke.denominator == 1 and abs(ke.numerator) <= 12 and k > 1:
                    a = RF(Poly.atom(atom))
                    r = RF(Poly.const(1))
                    for _ in range(abs(ke.numerator)):
                        r = r * a
                    return r if ke >= 0 else RF(Poly.const(1)) / r
        if name == "log" and len(args) == 1 and isinstance(args[0], RF):
            # log( prod exp(t_i)^k_i ) = sum k_i t_i : search small exponent vectors over the exp
            # atoms that occur in the (possibly unreduced) argument; test by cross-multiplication
            a = args[0]
            exps = [x for x in (a.n.atoms() | a.d.atoms()) if self.atom_info.get(x, ("",))[0] == "exp"]
            if 0 < len(exps) <= 3:
                import itertools
                for vec in sorted(itertools.product(range(-2, 3), repeat=len(exps)), key=lambda v: sum(abs(q) for q in v)):
                    if not any(vec):
                        continue
                    num_m, den_m = Poly.const(1), Poly.const(1)
                    for atom, k in zip(exps, vec):
                        for _ in range(abs(k)):
                            if k > 0:
                                num_m = num_m * Poly.atom(atom)
                            else:
                                den_m = den_m * Poly.atom(atom)
                    if (a.n * den_m - a.d * num_m).is_zero():
                        tot = RF(Poly())
                        for atom, k in zip(exps, vec):
                            t0 = self.atom_info[atom][1][0]
                            tot = tot + RF(t0.n.scale(k), t0.d)
                        return tot
        if name == "exp" and len(args) == 1 and isinstance(args[0], RF):
            a = args[0]
            mn = self._single_monomial(a.n)
            if mn is not None and a.d.is_const() and mn[1] == a.d.const_value() and len(mn[0]) == 1 and mn[0][0][1] == 1:
                info = self.atom_info.get(mn[0][0][0])
                if info is not None and info[0] == "log":
                    return info[1][0]
        if name == "pow" and len(args) == 2 and isinstance(args[1], RF) and args[1].n.is_const() and args[1].d.is_const() \
                and isinstance(args[0], RF) and len(args[0].n.d) <= 1 and len(args[0].d.d) <= 1:
            # integer powers of a monomial base are expanded; for a composite base the pow atom is
            # kept so that power products can still be combined
            e = args[1].n.const_value() / args[1].d.const_value()
            if e.denominator == 1 and abs(e.numerator) <= 8:
                r = RF(Poly.const(1))
                for _ in range(abs(e.numerator)):
                    r = r * args[0]
                return r if e >= 0 else RF(Poly.const(1)) / r
        if name in ("cos", "sin") and len(args) == 1 and isinstance(args[0], RF):
            r = self.trig_rules(name, args[0])
            if r is not None:
                return r
        if name == "arctan" and len(args) == 1 and _is_const(args[0], 1):
            return self.norm(z3.Real("pi")) * RF(Poly.const(Fraction(1, 4)))
        return None

    # ---- trigonometry (A8 instances): shift by pi/2, polar angle + addition formula
    def _trig(self, name, rf):
        f = z3.Function(name, z3.RealSort(), z3.RealSort())
        return self.norm(f(self.rf_to_term(rf)))

    def trig_rules(self, name, a):
        if not a.d.is_const():
            return None
        dc = a.d.const_value()
        pi_rf = self.norm(z3.Real("pi"))
        (pm, _), = pi_rf.n.d.items()
        pi_atom = pm[0][0]
        # linear occurrence of pi with coefficient -1/2 or +1/2:  cos(t - pi/2) = sin t, sin(t - pi/2) = -cos t
        cpi = a.n.d.get(((pi_atom, 1),), Fraction(0)) / dc
        if cpi in (Fraction(-1, 2), Fraction(1, 2)):
            rest = RF(a.n - Poly({((pi_atom, 1),): cpi * dc}), a.d)
            sgn = 1 if cpi < 0 else -1
            if name == "cos":      # cos(t -/+ pi/2) = +/- sin t
                r = self._trig("sin", rest)
                return r if sgn == 1 else RF(-r.n, r.d)
            r = self._trig("cos", rest)   # sin(t - pi/2) = -cos t ; sin(t + pi/2) = cos t
            return RF(-r.n, r.d) if sgn == 1 else r
        # polar angle: theta = arctan2(y, x) with coefficient one: addition formula with
        # cos(theta) = x/rho, sin(theta) = y/rho, rho = sqrt(x^2 + y^2)
        for m, c in a.n.d.items():
            if len(m) == 1 and m[0][1] == 1 and c == dc and self.atom_info.get(m[0][0], ("",))[0] == "arctan2":
                at = m[0][0]
                if any(at in [x for x, _ in mm] for mm in a.n.d if mm != m):
                    continue
                yy, xx = self.atom_info[at][1]
                rest = RF(a.n - Poly({m: c}), a.d)
                sq = z3.Function("sqrt", z3.RealSort(), z3.RealSort())
                rho = self.norm(sq(self.rf_to_term(xx * xx + yy * yy)))
                cb = self._trig("cos", rest) if not rest.n.is_zero() else RF(Poly.const(1))
                sb = self._trig("sin", rest) if not rest.n.is_zero() else RF(Poly.const(0))
                if name == "cos":
                    return (xx * cb - yy * sb) / rho
                return (yy * cb + xx * sb) / rho
        return None

    # ---- power products: pow(b,e1)*pow(b,e2) = pow(b,e1+e2), b^k*pow(b,e) = pow(b,e+k), sqrt(a)^2 = a
    def base_id(self, rf):
        bases = self.__dict__.setdefault("_bases", [])
        for k, b in enumerate(bases):
            if b.equals(rf):
                return k
        bases.append(rf)
        # a base that is a single atom also absorbs plain powers of that atom
        mn = self._single_monomial(rf.n)
        if mn is not None and rf.d.is_const() and mn[1] == rf.d.const_value() and len(mn[0]) == 1 and mn[0][0][1] == 1:
            self.__dict__.setdefault("_atom_base", {})[mn[0][0][0]] = len(bases) - 1
        return len(bases) - 1

    def pow_base(self, atom):
        info = self.atom_info.get(atom)
        if info is None or info[0] != "pow":
            return None
        cache = self.__dict__.setdefault("_pow_base", {})
        if atom not in cache:
            cache[atom] = self.base_id(info[1][0])
        return cache[atom]

    def combine_pows(self, poly):
        changed = False
        out = Poly()
        atom_base = self.__dict__.setdefault("_atom_base", {})
        for mono, c in poly.d.items():
            groups = {}   # base id -> exponent RF
            rest = []
            npow = 0
            exps = []
            for atom, k in mono:
                bid = self.pow_base(atom)
                info = self.atom_info.get(atom)
                if info is not None and info[0] == "exp":
                    exps.append((atom, k, info[1][0]))
                    continue
                if bid is not None:
                    e = RF(info[1][1].n.scale(k), info[1][1].d)
                    if bid in groups:
                        groups[bid] = groups[bid] + e
                        changed = True
                    else:
                        groups[bid] = e
                    npow += 1
                elif info is not None and info[0] == "sqrt" and k >= 2:
                    changed = True
                    for _ in range(k // 2):
                        rest.append(("rf", info[1][0]))
                    if k % 2:
                        rest.append((atom, 1))
                else:
                    rest.append((atom, k))
            if len(exps) > 1 or (len(exps) == 1 and exps[0][1] > 1):
                # exp(a)^k * exp(b)^l = exp(k a + l b)
                tot = RF(Poly())
                for atom, k, arg in exps:
                    tot = tot + RF(arg.n.scale(k), arg.d)
                rest.append(("rf", self.exp_atom(tot)))
                changed = True
            else:
                for atom, k, arg in exps:
                    rest.append((atom, k))
            if not groups and not any(x[0] == "rf" for x in rest):
                out.d[mono] = out.d.get(mono, 0) + c
                if out.d[mono] == 0:
                    del out.d[mono]
                continue
            rest2 = []
            for item in rest:
                if item[0] != "rf" and item[0] in atom_base and atom_base[item[0]] in groups:
                    groups[atom_base[item[0]]] = groups[atom_base[item[0]]] + RF(Poly.const(item[1]))
                    changed = True
                else:
                    rest2.append(item)
            term = RF(Poly({tuple(sorted((a, k) for a, k in rest2 if a != "rf")): Fraction(c)}))
            for item in rest2:
                if item[0] == "rf":
                    term = term * item[1]
            for bid, e in groups.items():
                if e.n.is_zero():
                    changed = True
                    continue
                term = term * self.pow_atom(bid, e)
            if not term.d.is_const():
                out.d[mono] = out.d.get(mono, 0) + c
                continue
            k = 1 / term.d.const_value()
            od = out.d
            for m2, c2 in term.n.d.items():
                v = od.get(m2, 0) + c2 * k
                if v == 0:
                    od.pop(m2, None)
                else:
                    od[m2] = v
        for m2 in [m for m, v in out.d.items() if v == 0]:
            del out.d[m2]
        return out, changed

    def exp_atom(self, arg):
        if arg.n.is_zero():
            return RF(Poly.const(1))
        for aid, info in self.atom_info.items():
            if info[0] == "exp" and self.rf_equal(info[1][0], arg):
                return RF(Poly.atom(aid))
        aid = ("app", self.new_atom("exp(combined)"))
        self.atom_info[aid] = ("exp", [arg])
        try:
            self.atom_term[aid] = z3.Function("exp", z3.RealSort(), z3.RealSort())(self.rf_to_term(arg))
        except GiveUp:
            pass
        return RF(Poly.atom(aid))

    def pow_atom(self, bid, e):
        base = self._bases[bid]
        if e.n.is_const() and e.d.is_const() and len(base.n.d) <= 1 and len(base.d.d) <= 1:
            ev = e.n.const_value() / e.d.const_value()
            if ev.denominator == 1 and abs(ev.numerator) <= 8:
                r = RF(Poly.const(1))
                for _ in range(abs(ev.numerator)):
                    r = r * base
                return r if ev >= 0 else RF(Poly.const(1)) / r
        key = (bid, frozenset(e.n.d.items()), frozenset(e.d.d.items()))
        kc = self.__dict__.setdefault("_comb_key", {})
        if key in kc:
            return RF(Poly.atom(kc[key]))
        lst = self.__dict__.setdefault("_comb", {}).setdefault(bid, [])
        for (oe, aid) in lst:
            if oe.equals(e):
                kc[key] = aid
                return RF(Poly.atom(aid))
        # an existing pow application with this base and exponent?
        for aid, info in self.atom_info.items():
            if info[0] == "pow" and self.pow_base(aid) == bid and info[1][1].equals(e):
                lst.append((e, aid))
                kc[key] = aid
                return RF(Poly.atom(aid))
        aid = ("app", self.new_atom("pow(base#%d ; %s)" % (bid, e.n)))
        lst.append((e, aid))
        kc[key] = aid
        self.atom_info[aid] = ("pow", [base, e])
        self.__dict__.setdefault("_pow_base", {})[aid] = bid
        f = z3.Function("pow", z3.RealSort(), z3.RealSort(), z3.RealSort())
        try:
            self.atom_term[aid] = f(self.rf_to_term(base), self.rf_to_term(e))
        except GiveUp:
            pass
        return RF(Poly.atom(aid))

    def is_zero(self, poly):
        if poly.is_zero():
            return True
        for _ in range(4):
            poly, ch = self.combine_pows(poly)
            if poly.is_zero():
                return True
            if not ch:
                break
        return False

    def rf_equal(self, a, b):
        return self.is_zero(a.n * b.d - b.n * a.d)


def _is_const(rf, c):
    return isinstance(rf, RF) and (rf.n - rf.d.scale(Fraction(c))).is_zero()


# named axiom instances at exact arguments (A8): f(args) = value
_BUILTIN = {
    ("cis_re", (0,)): 1, ("cis_im", (0,)): 0, ("cos", (0,)): 1, ("sin", (0,)): 0, ("exp", (0,)): 1,
    ("log", (1,)): 0, ("cexp_re", (0, 0)): 1, ("cexp_im", (0, 0)): 0, ("csqrt_re", (0, 0)): 0,
    ("csqrt_im", (0, 0)): 0, ("sqrt", (0,)): 0, ("sqrt", (1,)): 1, ("arctan", (0,)): 0,
}


def _builtin_value(name, args):
    for (fn, consts), val in _BUILTIN.items():
        if fn == name and len(consts) == len(args) and all(_is_const(a, c) for a, c in zip(args, consts)):
            return val
    if name.startswith("Prefix") and len(args) == 1 and _is_const(args[0], 0):
        return 0
    if name == "pow" and len(args) == 2:
        if _is_const(args[1], 0) or _is_const(args[0], 1):
            return 1
    return None


def _short(t):
    s = t.sexpr().replace("\n", " ")
    return s if len(s) < 160 else s[:157] + "..."


def _conjuncts(g):
    if z3.is_and(g):
        out = []
        for i in range(g.num_args()):
            out.extend(_conjuncts(g.arg(i)))
        return out
    return [g]


def prove(pc, hyps, goal, timeout_s=60, max_cases=4000):
    """Returns a result dict like smt._solve.  goal: conjunction of equalities between
    real/int terms (anything else makes it 'unknown: not a value goal')."""
    t0 = time.time()
    stats = {"queries": 0, "cases": 0, "atoms": 0}
    eqs = []
    for c in _conjuncts(goal):
        if z3.is_true(c):
            continue
        if z3.is_eq(c) and c.arg(0).sort().kind() in (z3.Z3_REAL_SORT, z3.Z3_INT_SORT):
            eqs.append((c.arg(0), c.arg(1)))
        else:
            return {"result": "unknown", "reason": "not a value goal: %s" % _short(c), "backend": "valueview",
                    "time_s": 0.0}
    s = z3.Solver()
    s.set("timeout", 5000)
    s.set("rlimit", 3000000)      # nonlinear queries with uninterpreted functions: bounded effort
    si = z3.Solver()
    si.set("timeout", 3000)
    for c in list(pc) + list(hyps):
        s.add(c)
        if pure_int(c):
            si.add(c)
    failures = []
    stack = []
    split_conds = []
    mode = {"expand": False, "compress": None}

    def rec(depth):
        if time.time() - t0 > timeout_s:
            raise GiveUp("timeout")
        stats["cases"] += 1
        if stats["cases"] > max_cases:
            raise GiveUp("too many cases")
        if si.check() == z3.unsat:
            return  # infeasible case (index arithmetic)
        if depth > 0 and s.check() == z3.unsat:
            return  # infeasible case
        case = Case(s, stats, expand_int=mode["expand"], int_solver=si)
        case.compress_at = mode["compress"]
        case.assumptions = list(pc) + list(hyps) + list(split_conds)
        try:
            for (a, b) in eqs:
                ra, rb = case.norm(a), case.norm(b)
                diff = ra.n * rb.d - rb.n * ra.d
                if not case.is_zero(diff):
                    m = None
                    try:
                        if s.check() == z3.sat:
                            mm = s.model()
                            m = {d.name(): str(mm[d]) for d in mm.decls() if d.arity() == 0 and not d.name().startswith(("kpre", "fk"))}
                    except z3.Z3Exception:
                        pass
                    failures.append({"case": list(stack), "lhs": _short(a), "rhs": _short(b), "model": m,
                                     "residual_terms": len(diff.d),
                                     "residual": [("%s" % c, [(case.atom_names.get(x[1], str(x)), e) for x, e in mono])
                                                  for mono, c in list(diff.d.items())[:6]]})
                    return
            stats["atoms"] = max(stats["atoms"], case.natoms)
        except NeedSplit as ns:
            c = ns.cond
            s.push()
            s.add(c)
            si.push()
            if pure_int(c):
                si.add(c)
            stack.append(_short(c))
            split_conds.append(c)
            rec(depth + 1)
            split_conds.pop()
            stack.pop()
            s.pop()
            si.pop()
            if failures:
                return
            s.push()
            s.add(z3.Not(c))
            si.push()
            if pure_int(c):
                si.add(z3.Not(c))
            stack.append("not " + _short(c))
            split_conds.append(z3.Not(c))
            rec(depth + 1)
            split_conds.pop()
            stack.pop()
            s.pop()
            si.pop()

    try:
        rec(0)
        if failures:
            # second attempt: distribute to_real over linear integer arithmetic
            first = list(failures)
            del failures[:]
            mode["expand"] = True
            try:
                rec(0)
            except GiveUp:
                failures[:] = first
            if failures:
                failures[:] = first
    except GiveUp as g:
        if mode["compress"] is None and "large" in str(g) or "timeout" in str(g) and mode["compress"] is None:
            # third attempt: name large intermediate quantities by definitional atoms
            mode["compress"] = 24
            mode["expand"] = False
            del failures[:]
            del stack[:]
            t0 = time.time()
            try:
                while s.num_scopes() > 0:
                    s.pop()
                while si.num_scopes() > 0:
                    si.pop()
                rec(0)
                if not failures:
                    return {"result": "unsat", "backend": "valueview(case-split + z3 LIA congruence + exact polynomial identity, definitional atoms) z3 " + z3.get_version_string(),
                            "stats": stats, "time_s": round(time.time() - t0, 3)}
            except GiveUp as g2:
                g = g2
        return {"result": "unknown", "reason": "valueview: %s" % g, "backend": "valueview", "stats": stats,
                "time_s": round(time.time() - t0, 3)}
    except z3.Z3Exception as e:
        return {"result": "unknown", "reason": "valueview z3: %s" % e, "backend": "valueview", "stats": stats,
                "time_s": round(time.time() - t0, 3)}
    res = {"backend": "valueview(case-split + z3 LIA congruence + exact polynomial identity) z3 " + z3.get_version_string(),
           "stats": stats, "time_s": round(time.time() - t0, 3)}
    if failures and stats.get("unknown_queries"):
        res["result"] = "unknown"
        res["reason"] = "valueview: identity not established and %d solver queries were inconclusive (timeout/resource limit)" % stats["unknown_queries"]
        res["value_failure"] = failures[0]
    elif failures:
        res["result"] = "sat"
        res["model"] = failures[0].get("model") or {}
        res["value_failure"] = failures[0]
    else:
        res["result"] = "unsat"
    return res
