"""Symbol-level dependency sets of symbolic values (frame obligations)."""
import z3

from . import sym, arrays
from .sym import Num, Cx, SBool, SStr
from .arrays import Arr


def term_symbols(t, out):
    seen = set()
    stack = [t]
    while stack:
        x = stack.pop()
        i = x.get_id()
        if i in seen:
            continue
        seen.add(i)
        if z3.is_app(x):
            d = x.decl()
            if d.kind() == z3.Z3_OP_UNINTERPRETED:
                out.add(d.name())
            for k in range(x.num_args()):
                stack.append(x.arg(k))
        elif z3.is_quantifier(x):
            stack.append(x.body())
    return out


def value_symbols(v, out=None):
    """Uninterpreted symbols a value mentions; arrays are probed at fresh in-range indices
    (element closures are total functions of the index, so the set is index-independent up
    to case distinctions -- all branches of `ite` terms are visited)."""
    out = set() if out is None else out
    if v is None or isinstance(v, (str, bytes, bool, int, float)):
        return out
    if isinstance(v, Num):
        if not v.concrete:
            term_symbols(v.t, out)
        return out
    if isinstance(v, Cx):
        value_symbols(v.re, out)
        value_symbols(v.im, out)
        return out
    if isinstance(v, SBool):
        if not v.concrete:
            term_symbols(v.t, out)
        return out
    if isinstance(v, SStr):
        term_symbols(v.t, out)
        return out
    if isinstance(v, arrays.Bytes):
        return value_symbols(v.payload, out)
    if isinstance(v, Arr):
        comps = []
        for ax in v.axes:
            value_symbols(ax.size, out)
            for _ in range(ax.ncomp):
                comps.append(sym.fresh_int("dep"))
        value_symbols(v.at(*comps), out)
        return out
    if isinstance(v, (tuple, list)):
        for x in v:
            value_symbols(x, out)
        return out
    if isinstance(v, dict):
        for x in v.values():
            value_symbols(x, out)
        return out
    if hasattr(v, "payload"):
        return value_symbols(v.payload, out)
    raise sym.Undecided("dependency set of %s" % type(v).__name__)


def close_over(symbols, defs):
    """Expand derived symbols (transform results, truncations, ghost functions) into the
    input symbols they stand for.  defs: name-prefix -> set of symbols (or callable)."""
    out = set()
    work = list(symbols)
    seen = set()
    while work:
        s = work.pop()
        if s in seen:
            continue
        seen.add(s)
        hit = False
        for k, v in defs.items():
            if s == k or s.startswith(k + "!") or (k.endswith("*") and s.startswith(k[:-1])):
                hit = True
                work.extend(v)
                break
        if not hit:
            out.add(s)
    return out
