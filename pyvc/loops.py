"""Loop-contract base classes and structural equality of compound values."""
import z3

from . import sym, arrays, values
from .sym import Num, Cx, SBool, Undecided, num, sbool
from .arrays import Arr


def scalar_eq(a, b):
    if isinstance(a, Cx) or isinstance(b, Cx):
        a, b = sym.cx(a), sym.cx(b)
        return (a.re == b.re) & (a.im == b.im)
    if isinstance(a, (SBool, bool)) or isinstance(b, (SBool, bool)):
        return sbool(a) == sbool(b)
    if a is None or b is None:
        return SBool(a is None and b is None)
    if isinstance(a, (str, sym.SStr)) or isinstance(b, (str, sym.SStr)):
        if isinstance(a, str) and isinstance(b, str):
            return SBool(a == b)
        a = a if isinstance(a, sym.SStr) else sym.SStr.lit(a)
        b = b if isinstance(b, sym.SStr) else sym.SStr.lit(b)
        ta, tb = a.t, b.t
        inj = getattr(sym._ENGINE[0], "injective", ())
        if z3.is_app(ta) and z3.is_app(tb) and ta.num_args() == tb.num_args() > 0 and \
                ta.decl().name() == tb.decl().name() and ta.decl().name() in inj:
            # recorded precondition: this naming function is injective (distinct names)
            r = SBool(True)
            for k in range(ta.num_args()):
                r = r & SBool(ta.arg(k) == tb.arg(k))
            return r
        return a == b
    return num(a) == num(b)


def oblige_equal(run, name, a, b, kind="post", cls="input", props=None, meta=None, replay=None,
                 assuming=()):
    """Emit obligations stating a == b for scalars / arrays (shape, then elements at fresh
    in-range index components; masked axes only where the mask is True)."""
    from . import opaque
    if isinstance(a, (list, dict, tuple, values.SList, values.SDict, values.BList, opaque.Op, opaque.Cond)) or \
            isinstance(b, (list, dict, tuple, values.SList, values.SDict, values.BList, opaque.Op, opaque.Cond)):
        run.oblige(name, opaque.veq(a, b), kind=kind, cls=cls, props=props, meta=meta, replay=replay,
                   assuming=assuming)
        return
    if isinstance(a, Arr) or isinstance(b, Arr):
        if not (isinstance(a, Arr) and isinstance(b, Arr)):
            run.oblige(name + ".is-array", SBool(False), kind=kind, cls=cls, props=props, meta=meta)
            return
        if a.ndim != b.ndim:
            run.oblige(name + ".ndim", SBool(False), kind=kind, cls=cls, props=props,
                       meta={"ndim": (a.ndim, b.ndim)})
            return
        shape_ok = SBool(True)
        for x, y in zip(a.axes, b.axes):
            if x.masked != y.masked or (x.masked and not x.same(y)):
                run.oblige(name + ".axis-kind", SBool(False), kind=kind, cls=cls, props=props)
                return
            if not x.masked:
                shape_ok = shape_ok & (x.size == y.size)
        if not (shape_ok.concrete and shape_ok.t):
            run.oblige(name + ".shape", shape_ok, kind=kind, cls=cls, props=props, meta=meta, replay=replay,
                       assuming=assuming)
        comps = []
        rng = list(assuming)
        for ax in a.axes:
            if ax.masked:
                m = ax.mask
                cs = [sym.fresh_int("m%d" % q) for q in range(m.ndim)]
                cond = sbool(m.at(*cs))
                for q, cq in enumerate(cs):
                    cond = cond & (cq >= 0) & (cq < m.axes[q].size)
                rng.append(cond)
                comps += cs
            else:
                k = sym.fresh_int("ix")
                rng.append((k >= 0) & (k < ax.size))
                comps.append(k)
        run.oblige(name + ".elements", scalar_eq(a.at(*comps), b.at(*comps)), kind=kind, cls=cls, props=props,
                   meta=meta, view="value", replay=replay, assuming=rng)
        return
    run.oblige(name, scalar_eq(a, b), kind=kind, cls=cls, props=props, meta=meta, view="value", replay=replay,
               assuming=assuming)


class Constructive:
    """Invariant given as an explicit description of the state at iteration i
    (`state_at(ctl, i)` -> dict over the tracked names).  No quantifiers, no havoc: every
    iteration state is a function of the inputs, so a refuted step is input-level."""
    props = None

    def state_at(self, ctl, i):
        raise NotImplementedError

    def on_enter(self, ctl):
        st = self.state_at(ctl, Num(0))
        for k, v in st.items():
            oblige_equal(ctl.run, ctl.label("init." + k), ctl.pre[k], v, kind="inv-init", props=self.props)

    def iter_state(self, ctl, i):
        return self.state_at(ctl, i)

    def on_step(self, ctl, new):
        st = self.state_at(ctl, ctl.i + 1)
        for k, v in st.items():
            oblige_equal(ctl.run, ctl.label("step." + k), new[k], v, kind="inv-step", props=self.props)

    def exit_state(self, ctl):
        return self.state_at(ctl, ctl.n)
