"""Compound symbolic values (lists of symbolic length, records) and the builtins shim."""
import builtins as _b
from fractions import Fraction

import z3

from . import sym
from .sym import Num, SBool, SStr, Cx, Undecided, num, sbool, engine


class SList:
    """A Python list of symbolic length: `length` (Num, >= 0 assumed by the creator) and an
    element function.  isinstance(x, list) is True for it (see shim)."""

    def __init__(self, length, elem, name=None):
        self.length = num(length)
        self.elem_fn = elem
        self.name = name

    def elem(self, i):
        return self.elem_fn(num(i))

    def __getitem__(self, i):
        if isinstance(i, slice):
            return self._slice(i)
        i = num(i)
        if not i.is_int:
            raise TypeError("list indices must be integers")
        n = self.length
        run = engine()
        if i.concrete and i.t < 0:
            j = n + i
        else:
            j = i
        # IndexError is an exception the contracts name: index must be in range
        run.oblige("index-in-range", (j >= 0) & (j < n), kind="call-pre", cls="input",
                   meta={"seq": self.name})
        return self.elem_fn(j)

    def _slice(self, s):
        if s.step is not None:
            st = num(s.step)
            if st.concrete and st.t == -1 and s.start is None and s.stop is None:
                n = self.length
                return SList(n, lambda k, n=n: self.elem_fn(n - 1 - k), name=(self.name or "") + "[::-1]")
            if not (st.concrete and st.t == 1):
                raise Undecided("slice step")
        n = self.length
        lo = num(0 if s.start is None else s.start)
        hi = n if s.stop is None else num(s.stop)
        lo = sym.ite(lo < 0, sym.smax(lo + n, 0), sym.smin(lo, n))
        hi = sym.ite(hi < 0, sym.smax(hi + n, 0), sym.smin(hi, n))
        ln = sym.smax(hi - lo, 0)
        return SList(ln, lambda k, lo=lo: self.elem_fn(lo + k), name=(self.name or "") + "[:]")

    def append(self, v):
        sym.note_mutation(self)
        n, old = self.length, self.elem_fn
        self.elem_fn = lambda k, n=n, old=old: _pick(k, n, v, old)
        self.length = n + 1

    def havoc(self, base):
        raise Undecided("havoc of a symbolic list (use a constructive loop contract)")

    def __len__(self):
        if self.length.concrete:
            return int(self.length.t)
        raise Undecided("builtin len() reached a symbolic list (use the shim)")

    def __iter__(self):
        if self.length.concrete:
            return iter([self.elem_fn(Num(k)) for k in range(int(self.length.t))])
        raise Undecided("iteration over a list of symbolic length without an invariant")

    def __bool__(self):
        return bool(self.length > 0)

    def __format__(self, spec):
        return "<list>"

    def __repr__(self):
        return "SList(%s,len=%s)" % (self.name, self.length.t)


class SDict:
    """Insertion-ordered mapping with a symbolic number of entries: entry k is
    (key_fn(k), val_fn(k)).  Keys are required to be pairwise distinct (obligation at insert)."""

    def __init__(self, length, key_fn, val_fn, name=None):
        self.length = num(length)
        self.key_fn, self.val_fn, self.name = key_fn, val_fn, name

    def __setitem__(self, key, val):
        from .loops import scalar_eq
        sym.note_mutation(self)
        run = engine()
        j = sym.fresh_int("dk")
        n = self.length
        run.oblige("dict-insert-key-is-new", ((j >= 0) & (j < n)).implies(~scalar_eq(self.key_fn(j), key)),
                   kind="call-pre", cls="input", meta={"dict": self.name})
        ok, ov = self.key_fn, self.val_fn
        from .opaque import Cond
        self.key_fn = lambda k, ok=ok, n=n: _pick(k, n, key, ok)
        self.val_fn = lambda k, ov=ov, n=n: _pick(k, n, val, ov)
        self.length = n + 1

    def keys(self):
        return SList(self.length, lambda k: self.key_fn(k), name="keys")

    def __iter__(self):
        raise Undecided("iteration over a symbolic dict without a loop contract")

    def __getitem__(self, key):
        """Lookup by key: for keys of an injective naming function name(k) the entry index is k."""
        import z3
        inj = getattr(engine(), "injective", ())
        if isinstance(key, SStr) and z3.is_app(key.t) and key.t.num_args() == 1 and key.t.decl().name() in inj:
            k = Num(key.t.arg(0))
            engine().oblige("dict-key-present", (k >= 0) & (k < self.length) & self.key_fn(k).__eq__(key), kind="call-pre",
                            cls="input", meta={"dict": self.name})
            return self.val_fn(k)
        raise Undecided("lookup in a symbolic dict by a key that is not an indexed name")

    def havoc(self, base):
        raise Undecided("havoc of a symbolic dict")

    def __format__(self, spec):
        return "<dict>"


def _pick(k, n, new, old_fn):
    from .opaque import Cond
    k = num(k)
    c = (k == n)
    if c.concrete:
        return new if c.t else old_fn(k)
    return Cond([(c, new), (~c, old_fn(k))])


def s_map(fn, seq):
    """[fn(x) for x in seq] for sequences of symbolic length."""
    if isinstance(seq, SList):
        return SList(seq.length, _generic_then_quiet(lambda k: fn(seq.elem(k)), seq.length), name="comprehension")
    return [fn(x) for x in seq]


def s_accum(acc, body, seq, kind):
    """Accumulation loop `for x in seq: acc.append(body(x))` / `acc[k] = v` (frontend._accumulation_loop).  Concrete
    sequence: the loop itself, in place.  Sequence of symbolic length and an accumulator that is still the empty list /
    dict it was created as: the comprehension's symbolic value.  Anything else is outside the subset."""
    if not isinstance(seq, SList):
        for x in seq:
            if kind == "list":
                acc.append(body(x))
            else:
                k, v = body(x)
                acc[k] = v
        return acc
    if kind == "list" and isinstance(acc, list) and not acc:
        return s_map(body, seq)
    if kind == "dict" and isinstance(acc, dict) and not acc:
        return s_dictcomp(body, seq, single=True)
    raise Undecided("accumulation over a sequence of symbolic length into a non-empty or symbolic accumulator")


def s_genmap(fn, seq):
    """(fn(x) for x in seq): a symbolic-length sequence gives the same SList as a list comprehension; over a concrete
    iterable (a list, another generator) it stays a lazy Python generator, so `next(gen, default)` keeps its meaning."""
    if isinstance(seq, SList):
        return s_map(fn, seq)
    return (fn(x) for x in seq)


def _generic_then_quiet(elem, length):
    """A comprehension over a sequence of symbolic length evaluates its element expression for every index IN RANGE.
    The element function is therefore run once at a generic index k0 under the assumption 0 <= k0 < length (its call
    preconditions are obligations under that assumption); later lazy evaluations at whatever index a comparison asks
    for emit no call preconditions (such an index need not be in range: a false alarm of the C14/C16 checks on a driver
    rewritten as `[run_step(i) for i in range(n)]`)."""
    run = engine()
    k0 = sym.fresh_int("comp_ix")
    saved = list(getattr(run, "ctx_assuming", []))
    run.ctx_assuming = saved + [(k0 >= 0) & (k0 < length)]
    try:
        elem(k0)
    finally:
        run.ctx_assuming = saved

    def lazy(k):
        run.quiet = getattr(run, "quiet", 0) + 1
        try:
            return elem(k)
        finally:
            run.quiet -= 1
    return lazy


def s_dictcomp(fn, seq, single=False):
    """{k: v for (..) in seq}; fn returns (key, value).  Distinct keys are the caller's
    precondition (recorded by the contract)."""
    if isinstance(seq, SList):
        def kv(k, which):
            e = seq.elem(k)
            return (fn(e) if single else fn(*e))[which]
        both = _generic_then_quiet(lambda k: (kv(k, 0), kv(k, 1)), seq.length)
        return SDict(seq.length, lambda k: both(k)[0], lambda k: both(k)[1], name="dict-comprehension")
    return dict((fn(e) if single else fn(*e)) for e in seq)


class BList:
    """A list built row by row: `rows` complete rows of `ncols` entries followed by `partial` entries
    of the next row; entry (t, i) is elem2(t, i).  Flat positions are never computed (that would be
    the nonlinear t*ncols+i): row boundaries are the ghost offsets off(t) with off(0) = 0 and
    off(t+1) = off(t) + ncols, and a slice [off(t) : off(t)+ncols] is row t."""

    def __init__(self, rows, ncols, partial, elem2, name=None):
        self.rows, self.ncols, self.partial = num(rows), num(ncols), num(partial)
        self.elem2, self.name = elem2, name

    @staticmethod
    def off(t, ncols):
        import z3
        t = num(t)
        if t.concrete and t.t == 0:
            return Num(0)
        f = z3.Function("row_offset", z3.IntSort(), z3.IntSort())
        run = engine()
        v = Num(f(t.z()))
        # ghost unfolding instances (off(0) = 0, off(t+1) = off(t) + ncols)
        run.assume(Num(f(z3.IntVal(0))) == 0)
        run.assume(Num(f((t + 1).z())) == v + ncols)
        run.assume((t >= 1).implies(v == Num(f((t - 1).z())) + ncols))
        return v

    def append(self, v):
        from .opaque import Cond
        sym.note_mutation(self)
        r, p, old = self.rows, self.partial, self.elem2

        def e2(t, i, r=r, p=p, old=old, v=v):
            c = (num(t) == r) & (num(i) == p)
            if c.concrete:
                return v if c.t else old(t, i)
            return Cond([(c, v), (~c, old(t, i))])
        self.elem2 = e2
        self.partial = p + 1

    def in_domain(self, t, i):
        t, i = num(t), num(i)
        return (t >= 0) & (i >= 0) & (((t < self.rows) & (i < self.ncols)) | ((t == self.rows) & (i < self.partial)))

    def __getitem__(self, key):
        if isinstance(key, slice) and key.step is None and key.start is not None and key.stop is not None:
            import z3
            a, b = num(key.start), num(key.stop)
            run = engine()
            t = sym.fresh_int("row")
            # the slice must be exactly one complete row: start = off(t), stop = off(t+1), t < rows
            # (t is determined by the start term when it is a row offset)
            st = a.t if not a.concrete else None
            if st is not None and z3.is_app(st) and st.decl().name() == "row_offset":
                t = Num(st.arg(0))
            elif a.concrete and a.t == 0:
                t = Num(0)
            else:
                return self._flat_slice(a, b)
            run.oblige("row-slice-is-one-complete-row", (b == BList.off(t + 1, self.ncols)) & (t >= 0) & (t < self.rows), kind="call-pre",
                       cls="input", meta={"list": self.name})
            return SList(self.ncols, lambda i, t=t: self.elem2(t, i), name="row")
        raise Undecided("indexing a row-structured list")

    def _flat_slice(self, a, b):
        """A slice that is not (syntactically) a row: the general case by flat positions.  Position p of the complete
        list is entry (p div ncols, p mod ncols); quotient and remainder are the values of two ghost functions whose
        defining (nonlinear) relation p = r * ncols + c, 0 <= c < ncols is given as an instance at every position
        asked for.  Python's clamping of slice bounds is kept.  Only for lists without a partial last row."""
        import z3
        run = engine()
        if not (self.partial.concrete and self.partial.t == 0):
            raise Undecided("general slice of a row-structured list with a partial last row")
        rows, ncols = self.rows, self.ncols
        total = rows * ncols
        lo = sym.ite(a < 0, sym.smax(a + total, 0), sym.smin(a, total))
        hi = sym.ite(b < 0, sym.smax(b + total, 0), sym.smin(b, total))
        ln = sym.smax(hi - lo, 0)
        I = z3.IntSort()
        frow, fcol = z3.Function("flat_row", I, I, I), z3.Function("flat_col", I, I, I)

        def elem(j, lo=lo):
            p = lo + num(j)
            r, c = Num(frow(p.z(), ncols.z())), Num(fcol(p.z(), ncols.z()))
            run.assume(((ncols > 0) & (p >= 0) & (p < total)).implies(
                (p == r * ncols + c) & (c >= 0) & (c < ncols) & (r >= 0) & (r < rows)))
            return self.elem2(r, c)
        return SList(ln, elem, name=(self.name or "") + "[flat:]")

    def havoc(self, base):
        raise Undecided("havoc of a row-structured list")

    def __format__(self, spec):
        return "<list>"


class Rec:
    """Plain record (attribute bag) used for configuration objects handed in as inputs."""

    def __init__(self, _name="rec", **kw):
        object.__setattr__(self, "_name", _name)
        for k, v in kw.items():
            object.__setattr__(self, k, v)

    def __repr__(self):
        return "<%s>" % self._name

    def __format__(self, spec):
        return "<%s>" % self._name


def slen(x):
    if isinstance(x, SList):
        return x.length
    if hasattr(x, "shape") and not isinstance(x, (Num, Cx)):
        sh = x.shape
        if len(sh) == 0:
            raise TypeError("len() of unsized object")
        return num(sh[0])
    return Num(_b.len(x))


def _unshim(t):
    m = {s_list: list, s_tuple: tuple, s_int: int, s_float: float, s_str: str, s_set: set}
    if _b.isinstance(t, tuple):
        return tuple(_unshim(u) for u in t)
    try:
        return m.get(t, t)
    except TypeError:
        return t


def s_isinstance(x, t):
    t = _unshim(t)
    if t is list or (isinstance(t, tuple) and list in t):
        if isinstance(x, SList) and not isinstance(x, SRange):
            return True
    if t is float:
        return isinstance(x, Num) and x.pyfloat or _b.isinstance(x, float)
    if t is int:
        return (isinstance(x, Num) and not x.pyfloat) or (_b.isinstance(x, int) and not _b.isinstance(x, bool))
    if t is str:
        return _b.isinstance(x, (str, SStr))
    return _b.isinstance(x, t)


class SRange(SList):
    """range(start, stop) with symbolic bounds (not a list until list() is applied)."""
    pass


def s_range(*a):
    a = [num(v) for v in a]
    if all(v.concrete for v in a):
        return _b.range(*[int(v.t) for v in a])
    if len(a) > 2:
        raise Undecided("range() with a step and symbolic bounds")
    lo, hi = (Num(0), a[0]) if len(a) == 1 else (a[0], a[1])
    return SRange(sym.smax(hi - lo, 0), lambda k, lo=lo: lo + k, name="range")


def s_int(x=0):
    if isinstance(x, Num):
        if x.concrete:
            return Num(int(x.t))  # truncation toward zero (A2)
        if x.is_int:
            return x
        # truncation toward zero of a real (A2).  The integer is introduced as a fresh symbol k
        # whose defining fact  k <= x < k+1  (x >= 0 must be provable) is kept OUT of the path
        # condition (it would mix nonlinear reals into the index arithmetic); obligations that
        # need it take it from run.int_defs.
        run = engine()
        import z3 as _z3
        # a FUNCTION of its argument (equal arguments give equal integers, by congruence)
        k = Num(_z3.Function("trunc", _z3.RealSort(), _z3.IntSort())(x.zr()))
        if run.feasible((x < 0).z()) and bool(x < 0):
            # negative argument: truncation toward zero is the ceiling
            run.assume(k <= 0)
            run.neg_int_defs = getattr(run, "neg_int_defs", []) + [(k, x)]
            return k
        run.assume(k >= 0)
        run.int_defs.append((k, x))
        return k
    if isinstance(x, SBool):
        return num(x)
    return _b.int(x)


def s_float(x=0.0):
    if isinstance(x, Num):
        return Num(x.t, True)
    if isinstance(x, str):
        return Num(Fraction(x), True)
    return Num(x, True)


def s_max(*a, **kw):
    if len(a) == 1:
        a = list(a[0])
    r = a[0]
    for v in a[1:]:
        r = sym.smax(r, v)
    return r


def s_min(*a, **kw):
    if len(a) == 1:
        a = list(a[0])
    r = a[0]
    for v in a[1:]:
        r = sym.smin(r, v)
    return r


def s_str(x=""):
    if isinstance(x, (str,)):
        return x
    if isinstance(x, SStr):
        return x
    return engine().str_of(x)


def s_list(x=()):
    if isinstance(x, BList):
        return x
    if isinstance(x, SRange):
        return SList(x.length, x.elem_fn, name="list(range)")
    if isinstance(x, SList):
        return x
    return _b.list(x)


def s_tuple(x=()):
    if isinstance(x, SList):
        if x.length.concrete:
            return _b.tuple(iter(x))
        return x  # tuple(list) of symbolic length: same abstract sequence
    return _b.tuple(x)


def s_abs(x):
    return abs(x)


def s_sum(xs, start=0):
    r = start
    for v in xs:
        r = r + v
    return r


def s_enumerate(x, start=0):
    if isinstance(x, SList):
        # a sequence of symbolic length: the pairs (start + k, x[k]) as a symbolic list
        return SList(x.length, lambda k: (num(start) + num(k), x.elem(k)), name="enumerate")
    return _b.enumerate(x, start)


def s_sorted(x, key=None, reverse=False):
    if isinstance(x, (SList, _OpaqueSeq)):
        return _OpaqueSeq("sorted", x)
    return _b.sorted(x, key=key, reverse=reverse)


def s_set(x=()):
    if isinstance(x, (SList, _OpaqueSeq)):
        return _OpaqueSeq("set", x)
    return _b.set(x)


class _OpaqueSeq(SList):
    """Result of sorted()/set() on a list of symbolic length: a sequence about which nothing is
    known except what it was computed from (fresh length, fresh elements)."""

    def __init__(self, op, src):
        import z3
        run = engine()
        n = sym.fresh_int("len_" + op)
        run.assume((n >= 0) & (n <= src.length))
        f = z3.Function(run.fresh("el_" + op), z3.IntSort(), z3.IntSort())
        SList.__init__(self, n, lambda k: Num(f(num(k).z())), name=op + "(" + str(getattr(src, "name", "")) + ")")
        self.op, self.src = op, src


def s_bool(x=False):
    return _b.bool(x)


def shim_builtins():
    d = dict(vars(_b))
    d.update({"len": slen, "isinstance": s_isinstance, "range": s_range, "int": s_int,
              "float": s_float, "max": s_max, "min": s_min, "str": s_str, "list": s_list,
              "tuple": s_tuple, "sum": s_sum, "enumerate": s_enumerate, "sorted": s_sorted, "set": s_set})
    return d
