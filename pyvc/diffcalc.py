"""Symbolic differentiation of z3 real terms (textbook rules; part of the trusted base)."""
import z3

R = z3.RealSort()


def d(t, v):
    """d t / d v  for a z3 real term t and a z3 real constant v."""
    if t.eq(v):
        return z3.RealVal(1)
    if z3.is_rational_value(t) or z3.is_int_value(t):
        return z3.RealVal(0)
    k = t.decl().kind()
    if k == z3.Z3_OP_TO_REAL:
        return z3.RealVal(0)
    if k == z3.Z3_OP_ADD:
        return z3.Sum([d(t.arg(i), v) for i in range(t.num_args())])
    if k == z3.Z3_OP_SUB:
        r = d(t.arg(0), v)
        for i in range(1, t.num_args()):
            r = r - d(t.arg(i), v)
        return r
    if k == z3.Z3_OP_UMINUS:
        return -d(t.arg(0), v)
    if k == z3.Z3_OP_MUL:
        args = [t.arg(i) for i in range(t.num_args())]
        terms = []
        for i in range(len(args)):
            p = d(args[i], v)
            for j in range(len(args)):
                if j != i:
                    p = p * args[j]
            terms.append(p)
        return z3.Sum(terms)
    if k == z3.Z3_OP_DIV:
        a, b = t.arg(0), t.arg(1)
        return (d(a, v) * b - a * d(b, v)) / (b * b)
    if k == z3.Z3_OP_POWER:
        b, e = t.arg(0), t.arg(1)
        if z3.is_rational_value(e):
            return e * (b ** (e - 1)) * d(b, v)
        raise ValueError("power with symbolic exponent")
    if k == z3.Z3_OP_ITE:
        return z3.If(t.arg(0), d(t.arg(1), v), d(t.arg(2), v))
    if k == z3.Z3_OP_UNINTERPRETED:
        if t.num_args() == 0:
            return z3.RealVal(0)
        n = t.decl().name()
        a = t.arg(0)
        if n == "log":
            return d(a, v) / a
        if n == "exp":
            return d(a, v) * t
        if n == "arctan":
            return d(a, v) / (1 + a * a)
        if n == "sqrt":
            return d(a, v) / (2 * t)
        if n in ("pow", "cpow_re"):
            e = t.arg(1)
            if z3.is_rational_value(e):
                f = z3.Function("pow", R, R, R)
                return e * f(a, e - 1) * d(a, v)
        da = [d(t.arg(i), v) for i in range(t.num_args())]
        if all(z3.is_rational_value(z3.simplify(x)) and z3.simplify(x).numerator_as_long() == 0 for x in da):
            return z3.RealVal(0)
        raise ValueError("no derivative rule for %s" % n)
    raise ValueError("no derivative rule for %s" % t.decl().name())
